#!/usr/bin/env python3
"""Run checks against a behaviour-PRESERVING change: every check must stay
silent (exit 0).  Counterpart of try_mutant.py for false-alarm resistance.

usage: try_benign.py <patch.diff> <id> <check> [<check> ...] [--keep]

1. scratch worktree of /repo HEAD (outside /repo and /verif), patch applied;
2. pinned baseline must stay green with the patch;
3. each check: quick tier with VERIF_REPO_ROOT=<worktree>, no evidence;
4. worktree removed; with --keep the diff, its description and the result go
   to /verif/seeded/benign/<id>.{diff,txt,json}.
"""
import json, os, shutil, subprocess, sys, time

V = os.path.dirname(os.path.dirname(os.path.abspath(__file__)))
PY = "/venv/bin/python"


def sh(cmd, env=None, timeout=3600, cwd=None):
    p = subprocess.run(cmd, shell=isinstance(cmd, str), capture_output=True,
                       text=True, env=env, timeout=timeout, cwd=cwd)
    return p.returncode, p.stdout + p.stderr


def main():
    args = [a for a in sys.argv[1:] if not a.startswith("--")]
    keep = "--keep" in sys.argv
    diff, sid, checks = args[0], args[1], args[2:]
    wt = f"/tmp/mw/{sid}"
    os.makedirs("/tmp/mw", exist_ok=True)
    sh(f"git -C /repo worktree remove --force {wt}")
    rc, out = sh(f"git -C /repo worktree add -q {wt} HEAD")
    assert rc == 0, out
    report = {"id": sid, "kind": "behaviour-preserving change"}
    replays = []
    try:
        rc, out = sh(f"git -C {wt} apply {diff}")
        report["patch_applies"] = rc == 0
        if rc != 0:
            report["error"] = out[-500:]
            return report
        rc, out = sh(f"python3 {V}/tools/baseline.py {wt}")
        report["baseline_with_patch"] = out.strip().splitlines()[0]
        report["baseline_ok"] = rc == 0
        report["checks"] = {}
        for c in checks:
            script = f"{V}/checks/{c.lower()}.py"
            env3 = dict(os.environ, VERIF_REPO_ROOT=wt)
            t0 = time.time()
            rc, out = sh([PY, script, "--tier", "quick", "--no-evidence"],
                         env=env3, timeout=3000, cwd=V)
            ent = {"quick_exit": rc, "quick_s": round(time.time() - t0, 1),
                   "alarms": [l for l in out.splitlines()
                              if "oracle=" in l or "HARNESS" in l][:6],
                   "summary": [l for l in out.splitlines()
                               if l.startswith("[C")][-1:]}
            if rc == 2:
                ent["harness_error"] = out[-1500:]
            replays += [l.split("replay=")[1].strip()
                        for l in out.splitlines()
                        if l.startswith("VIOLATION ")]
            report["checks"][c] = ent
        report["silent"] = all(e["quick_exit"] == 0
                               for e in report["checks"].values())
    finally:
        sh(f"git -C /repo worktree remove --force {wt}")
        sh("git -C /repo worktree prune")
    if keep and report.get("baseline_ok"):
        dst = f"{V}/seeded/benign"
        os.makedirs(dst, exist_ok=True)
        shutil.copy(diff, f"{dst}/{sid}.diff")
        txt = diff[:-5] + ".txt"
        if os.path.exists(txt):
            shutil.copy(txt, f"{dst}/{sid}.txt")
        json.dump(report, open(f"{dst}/{sid}.json", "w"), indent=1)
    report["replays"] = replays
    return report


if __name__ == "__main__":
    r = main()
    print(json.dumps(r, indent=1))
