#!/usr/bin/env python3
"""Generate /verif/MANIFEST.json from the table below (single source)."""
import json, os
V = os.path.dirname(os.path.dirname(os.path.abspath(__file__)))
PY = "/venv/bin/python"

NA = {
 "C01": "pure function of (volume file, options): no schedule, fault, history or uncontrolled environment input decides it; its one lifecycle dependence (exit-time flush of sharded output) is exercised by C13/C19. Sampling inputs would be property-based testing, not simulation (DESIGN.md 6).",
 "C02": "codec conformance of encode_chunk against the format is a pure function of the array and block size; no I/O, ordering or fault dimension (DESIGN.md 6).",
 "C07": "downscalers are pure array arithmetic; the np.empty in the majority method is fully overwritten by construction of its loop (DESIGN.md 6).",
 "C08": "fill_scales_for_dyadic_pyramid is pure arithmetic on the info dictionary (DESIGN.md 6).",
 "C09": "Morton code, masks and file names are pure integer arithmetic; routing consequences are observed by C04's independent reader, but C09's own quantifier is an input space (DESIGN.md 6).",
 "C11": "get_chunk_dtype_transformer is pure value conversion; the buffer-reuse flag is an argument, not an interleaving (DESIGN.md 6).",
 "C16": "info text and transform are pure functions of header and affine (DESIGN.md 6).",
 "C17": "mesh writers/readers and the affine transform are pure encode/decode/geometry (DESIGN.md 6).",
 "C20": "chunk counts, byte sizes and readable_count are pure arithmetic/formatting (DESIGN.md 6).",
}

# pid -> (level, technique, level text, level note)
CHECKS = {
 "C12": ("exploration",
         "deterministic simulation: seeded store/fetch/exists histories over real accessors on a simulated file system (SimFS raw-I/O seam), map-model refinement + tree-delta oracles, benign short-transfer injection",
         "Seeded search over operation histories (<=60 ops, several handles, writer x reader configurations, hostile names) with every raw I/O call simulated; each op is compared with a map model and the resulting tree. Sampling, not proof; right level because the property quantifies over histories and configurations and the state space is a file tree.",
         "Trusts SimFS's POSIX model (cross-checked against a real directory in sim/selftest.py), CPython io/gzip/pathlib running for real above the seam, and the stated assumptions (one MIME type per name, stores through the writer configuration only)."),
 "C04": ("exploration",
         "deterministic simulation: seeded chunk subsets x arrival orders x buffering strategies delivered to the real sharded writer on SimFS; resulting shard files parsed by an independent reader written from the sharded specification",
         "Seeded search over (grid, sharding triple incl. >=64 total bits, encodings, subset kind, arrival orders, strategy); every produced tree is parsed by sim/specref/sharded.py (file name, slot placement, strictly increasing ids, ranges inside file and non-overlapping, bytes, strict gzip). Sampling, not proof.",
         "Trusts the independent spec reader (cross-checked on hand-made vectors in the self-test) and SimFS; minishard_bits <= 10."),
 "C05": ("exploration",
         "deterministic simulation: the sharded writer as a reorder buffer -- same chunk set under K seeded arrival orders (all permutations for small sets in thorough) x both buffering strategies on fresh SimFS instances; reference-map read-back through a fresh accessor and byte-identity of the shard trees",
         "Seeded search over arrival orders and subsets against a reference map; trees of all orders/strategies compared byte for byte; never-stored positions must not yield data; variants: a second scale with the same shard numbers written interleaved, a second store/close session on the same accessor, writers that rely on the exit handler (simulated process with TemporaryDirectory finalizer ordering), payloads above 64 KiB and minishards above 1 MiB. Exhaustive over permutations only for sets <= 6 chunks (thorough). Sampling otherwise.",
         "Trusts SimFS (incl. simulated temp files of the on-disk strategy); reads only after close(); each chunk stored once."),
 "C18": ("fault_enumeration",
         "deterministic simulation with fault injection: per sampled scenario, every raw I/O call of the operation is failed with each plausible errno and interrupted before / after / torn inside (single faults enumerated exhaustively, 2-3 fault sequences and disk-full budgets seeded in thorough); a fresh reader process judges the surviving state",
         "Exhaustive over single faults and single crash points (before / after / torn inside each raw I/O call; every fault kind on every HTTP request) of each sampled scenario (file, sharded, HTTP and sharded-HTTP accessors x layout x encoding x operation incl. naturally refused stores and the pyramid driver); scenarios themselves are sampled; thorough adds seeded 2-3 fault sequences and disk-full budgets. The oracle is the statement's own trichotomy (error class / effect in place / earlier data unchanged; after interruption complete, absent or detectably invalid) plus same-handle retries: a retried close() that returns normally must have everything in place, a failure that left no trace must not poison a stateless handle, an accessor built fault-free must serve the request again once the faults stop.",
         "Trusts SimFS's process-interruption durability model (completed raw writes durable, user-space buffers lost; real io.Buffered*/GzipFile above the seam) and the fresh-reader oracle; power-loss reordering out of scope."),
 "C03": ("exploration",
         "deterministic simulation: seeded write/read/close histories (valid and off-grid writes, same or fresh handle) through the real PrecomputedIO + file and sharded accessors on SimFS, refinement against an array model",
         "Seeded search over infos (5 data types, channels, multi-scale, 1-2 chunk sizes, raw / compressed_segmentation incl. non-cubic blocks / JPEG) x accessor kinds and options x operation histories; written arrays are presented C-ordered, Fortran-ordered, big-endian, strided or read-only, some with bytes that look like gzip/JPEG files; every read compared with the model (exact for lossless, calibrated bound for JPEG ramps) and re-compared at the end of the history (results must not alias); off-grid writes (12 classes) must raise and leave the tree unchanged. Sampling, not proof.",
         "Trusts SimFS, the independent on-grid predicate in checks/c03.py and the JPEG tolerance calibration (max error 13 measured over the ramp family, threshold 52)."),
 "C10": ("exploration",
         "deterministic simulation with storage-corruption faults: a valid chunk written by the real writer on SimFS, its stored payload corrupted (torn, stale tail, bit flips, lost sector, misdirected block, random replacement, targeted header-field edits) between write and a fresh read; outcome oracle array-of-exact-shape | InvalidFormatError, 5 s watchdog",
         "Seeded search over encodings x data types x channels x shapes x block sizes x label distributions x storage kinds and 12-40 corruptions per valid chunk (incl. whole payloads of another shape and well-formed images of other containers/pixel types); valid data is never rejected is checked on the package encoder output and on a second valid layout (shared table prefix). Sampling of an exponential byte-string space, biased to format boundaries and header fields; CPU-time watchdog for hangs.",
         "Trusts the corruption generators' format knowledge (cseg header layout, JPEG SOF segment) only for *placing* edits; the oracle itself needs no format knowledge. Borderline applicability is discussed in DESIGN.md 2.2."),
 "C14": ("exploration",
         "deterministic simulation with fault injection: real requests/urllib3 stack on a simulated transport adapter and static-server model (documented nginx rules, Range, zero-range policy seeded); datasets produced by the real writers on SimFS; per-request seeded fault sequences (4xx/5xx, connection reset, timeout, dropped body, short / over-long / ignored range); equivalence with local reading",
         "Seeded search over dataset kinds (plain flat/deep, sharded, legacy, mixed layouts, two scales), sharding triples, subsets, URL spellings and server policies; class 1 compares every position over HTTP with the local accessor, class 2 injects 1-3 faults per fetch on learned request ordinals (accessor built inside the fault window, built fault-free just before, or long-lived) and requires exact bytes or an error of the stated class, correct dispatch when info itself was fetched intact, no wrong data from later reads on the same accessor, and -- for accessors built fault-free -- that the stored chunk is readable again once the faults stop. Sampling, not proof.",
         "Trusts the server model as a faithful reading of docs/serving-data.rst and RFC 7233, and the real requests/urllib3 response handling above the adapter seam. TLS, proxies, redirects, chunked transfer and stalls are not modelled."),
 "C13": ("exploration",
         "deterministic simulation: the real convert-chunks main() run as a simulated process (argparse, exit status, atexit handlers run LIFO by the simulator, or killed before them) from local or simulated-HTTP sources into file / sharded destinations on SimFS; a new simulated process decodes the destination and compares with the source model",
         "Seeded search over source x destination kinds (local, sharded, HTTP flat/deep/sharded/legacy), encodings, widening dtype pairs, sharding triples, --copy-info, multi-scale chunk sizes; relational oracle (destination == source after the documented conversion, source tree hash unchanged, exit status 0); two library calls in one process; thorough: kill before the exit handlers (destination never wrong) followed by a complete re-run (exit 0 => destination correct), >1 MiB minishards. Sampling, not proof.",
         "Trusts SimProc's model of CPython exit semantics (handlers LIFO, their exceptions ignored for the status), SimFS and SimHTTP."),
 "C19": ("exploration",
         "deterministic simulation: seeded programs (sequences of the real CLI main() functions with repeated data-writing steps), each command a simulated process with exit handlers on a shared SimFS, versus the all-in-one command; relational oracles over the decoded datasets",
         "Seeded search over synthetic volumes and option sets (encoding, type, method, outside value, input min/max, header scaling, mmap, layout, sharding); oracles: info and decoded voxels equal between all-in-one and step-by-step, decoded contents unchanged by repeating a step, success exit implies every requested file/chunk exists and decodes (incl. convert-chunks into a destination declaring more scales); thorough: one data-writing command killed before its exit handlers. A non-zero exit alone is not judged. Sampling, not proof.",
         "Trusts SimProc/SimFS; input NIfTI volumes are real files (nibabel) and are not fault-injected; mesh and slice commands are not part of the generated programs."),
 "C06": ("exploration",
         "deterministic simulation of an environment input: the real pyramid driver on SimFS with poisoned np.empty -- every computation runs twice under two different poison bytes (difference => unwritten voxel) and each level is compared with the global downscale of the previous level; infos come from the real scale generator; every transition also exercised on its own",
         "Seeded search over sizes, resolution ratios (isotropic to strongly anisotropic, dyadic and not), target chunk sizes, methods, data types, channels, encodings and layouts. Oracles: poison independence, global-downscale equality, loud failure allowed except for pairs satisfying the documented processing assumption. Sampling, not proof.",
         "Trusts the repository's Downscaler.downscale as the definitional operator (C07 not claimed) and the independent 'must complete' predicate in checks/c06.py."),
 "C15": ("exploration",
         "deterministic simulation of an environment input: the real slice converter run as a simulated process with a seeded permutation of the directory enumeration order (os.listdir seam) and file names whose lexicographic, numeric and creation orders differ; all 48 orientation codes enumerated round-robin; index-mapping reference oracle",
         "All 48 codes are enumerated (idx mod 48); sizes, chunk sizes, channel kinds, pixel types, storage options, name styles and enumeration permutations are sampled. Every voxel of the converted volume is compared with the reference mapping written from the statement. Borderline applicability is discussed in DESIGN.md 2.2.",
         "Trusts the index-mapping reference in checks/c15.py and PIL/scikit-image PNG round trip; slice images are real files, only their enumeration order is simulated."),
}

def main():
    checks = []
    for pid in sorted(CHECKS):
        level, tech, text, note = CHECKS[pid]
        s = f"checks/{pid.lower()}.py"
        checks.append({
            "property_id": pid,
            "quick_cmd": f"timeout 900 {PY} {s} --tier quick",
            "thorough_cmd": f"timeout 3000 {PY} {s} --tier thorough",
            "evidence_file": f"evidence/{pid}.json",
            "replay_cmd_template": f"{PY} {s} --replay {{path}}",
            "engine": "sim",
            "level_claimed": {"category": level, "text": text,
                              "design_ref": f"DESIGN.md section 5 ({pid})"},
            "level_note": note,
            "technique": tech,
        })
    props = [json.loads(l)["id"] for l in open(os.path.join(V, "properties.jsonl"))]
    na = []
    for pid in props:
        if pid in CHECKS:
            continue
        na.append({"property_id": pid, "reason": NA.get(
            pid, "check under construction in this session (DESIGN.md section 5 describes the planned simulation); not claimed until its machinery is committed")})
    doc = {
        "version": 1,
        "setup_cmd": f"{PY} sim/selftest.py --fast",
        "hooks": {
            "guard": "NEUROGLANCER_SCRIPTS_VERIF",
            "enable": "no hooks are needed: every seam (builtins.open, io.open, os.stat/mkdir/unlink/listdir/rename, requests.Session, atexit.register, module-level np/uuid4/TemporaryDirectory, gzip.time) is an attribute looked up at call time and is replaced from /verif/sim by monkeypatching; checks import /repo/src from the working tree (PYTHONPATH forced, location asserted)",
            "baseline_off_cmd": "cd /repo && /venv/bin/python -m pytest -ra -q -p no:cacheprovider --timeout=900 --continue-on-collection-errors",
            "source_commits": [],
            "add_only": True,
        },
        "engines": [{
            "name": "sim", "path": "sim/",
            "serves_properties": sorted(CHECKS),
            "kind_free_text": "single-process deterministic simulator: SimFS (raw file I/O), SimHTTP (requests transport adapter + static server model), SimProc (atexit/exit status/kill), poisoned np.empty, seeded enumeration order; seeded scenario/operation/fault generation, event-log digests, ddmin minimisation, replay files",
        }],
        "checks": checks,
        "not_applicable": na,
        "notes": "Exit codes: 0 held / 1 VIOLATION (each verified by fresh-process replay) / 2 HARNESS-ERROR. Known findings: known_findings.json. VERIF_SEED selects the base seed; VERIF_REPO_ROOT redirects the checks to a scratch copy (sensitivity runs).",
    }
    with open(os.path.join(V, "MANIFEST.json"), "w") as f:
        json.dump(doc, f, indent=1)
    print("MANIFEST.json:", len(checks), "checks,", len(na), "n/a")

main()
