#!/usr/bin/env python3
"""Print the markdown table of seeded changes from seeded/*/meta.json."""
import glob, json, os
V = os.path.dirname(os.path.dirname(os.path.abspath(__file__)))
rows = []
for m in sorted(glob.glob(f"{V}/seeded/*/meta.json")):
    d = json.load(open(m))
    sid = os.path.basename(os.path.dirname(m))
    runs = d.get("what_was_run", {})
    cells = []
    for c in sorted(runs):
        e = runs[c]
        if e.get("quick_exit") == 1:
            cells.append(f"**{c} quick** ({e['quick_s']:.0f}s)")
        elif e.get("thorough_exit") == 1:
            cells.append(f"**{c} thorough** ({e['thorough_s']:.0f}s)")
        else:
            cells.append(f"{c}: silent")
    keys = []
    for c in sorted(runs):
        for l in (runs[c].get("quick_violations") or []) + (
                runs[c].get("thorough_violations") or []):
            k = l.split("key=")[-1].strip()
            if k not in keys:
                keys.append(k)
    summ = (d.get("summary") or "").replace("|", "/")
    if len(summ) > 210:
        summ = summ[:207] + "..."
    rows.append(f"| {sid} | {summ} | {'; '.join(cells)} | "
                f"{', '.join('`%s`' % k for k in keys[:3])} |")
print("| id | change (one line) | result per check run | violation keys |")
print("|---|---|---|---|")
print("\n".join(rows))
