#!/usr/bin/env python3
"""Sensitivity protocol of DESIGN.md 3.9: plant the per-property sensitivity
targets one at a time in a scratch worktree, confirm the baseline, run the
property's check (quick, then thorough with a bounded budget) and record the
outcome in seeded/planted/results.json.

usage: planted.py [id ...]        (no id = all)
"""
import json
import os
import subprocess
import sys
import time

V = os.path.dirname(os.path.dirname(os.path.abspath(__file__)))
PY = "/venv/bin/python"
S = "src/neuroglancer_scripts/"

# id, property, checks, file, old, new, description
P = [
 ("P-C03-a", "C03", ["C03"], S + "precomputed_io.py",
  "and ymin % ycs == 0 and (ymax == min(ymin + ycs, ys))",
  "and ymin % ycs == 0",
  "validate_chunk_coords: drop the ymax clause"),
 ("P-C03-b", "C03", ["C03"], S + "chunk_encoding.py",
  "                (self.num_channels,\n                 chunk_size[2], chunk_size[1], chunk_size[0]))\n        except Exception as exc:",
  "                (self.num_channels,\n                 chunk_size[0], chunk_size[1], chunk_size[2])).transpose(0, 3, 2, 1)\n        except Exception as exc:",
  "raw decoder: reshape with (x,y,z) order then transpose (wrong memory order)"),
 ("P-C03-c", "C03", ["C03"], S + "chunk_encoding.py",
  '    lossy = True\n    mime_type = "image/jpeg"',
  '    lossy = True\n    mime_type = "application/octet-stream"',
  "JPEG chunks routed through gzip (wrong mime type): layout differs, data must still round-trip -> expected NOT a C03 violation"),
 ("P-C03-d", "C03", ["C03"], S + "_compressed_segmentation.py",
  "        if block.shape != block_size[::-1]:\n            block = pad_block(block, block_size[::-1])",
  "        if block.shape != block_size:\n            block = pad_block(block, block_size)",
  "cseg padding with (x,y,z)/(z,y,x) confusion (reverts fix 83f440e)"),
 ("P-C05-a", "C05", ["C05", "C04"], S + "sharded_file_accessor.py",
  "            self.append(chunk_to_store, cmc)\n            self.flush_buffer()\n            return",
  "            self.append(chunk_to_store, cmc)\n            return",
  "no flush_buffer() after an in-order append"),
 ("P-C05-b", "C05", ["C05", "C04"], S + "sharded_file_accessor.py",
  "            + (next_val & self.shard_spec.preshift_mask)\n",
  "            + np.uint64(0)\n",
  "next_cmc ignores the preshift bits"),
 ("P-C05-c", "C04", ["C04", "C05"], S + "sharded_file_accessor.py",
  "                slots[slot] = (data_size + sh_size,\n                               data_size + sh_size + len(hdr_buf))",
  "                slots[slot] = (data_size + sh_size + self.header_byte_length,\n                               data_size + sh_size + len(hdr_buf) + self.header_byte_length)",
  "minishard index offsets relative to the file start instead of the end of the shard index"),
 ("P-C05-d", "C04", ["C04", "C05"], S + "sharded_file_accessor.py",
  "        new_chunk_id = cmc - self._last_chunk_id\n",
  "        new_chunk_id = cmc\n",
  "chunk ids stored without delta encoding"),
 ("P-C05-e", "C04", ["C04", "C05"], S + "sharded_base.py",
  "        self.shard_key_str = hex(shard_key)[2:].rjust(\n            math.ceil(self.shard_spec.shard_bits / 4), \"0\"\n        )",
  "        self.shard_key_str = hex(shard_key)[2:]",
  "un-padded hexadecimal shard file name"),
 ("P-C05-f", "C05", ["C05"], S + "sharded_file_accessor.py",
  "        value = self[key]\n        self._delete(key)\n        return value",
  "        value = self[key]\n        return value",
  "OnDiskBytesDict.pop does not delete (on-disk strategy never drains)"),
 ("P-C05-g", "C05", ["C05", "C04"], S + "sharded_file_accessor.py",
  "    def __iter__(self) -> Iterator[bytes]:\n        yield bytes(self)\n",
  "    pass\n",
  "InMemByteArray.__iter__ removed (iterates ints)"),
 ("P-C05-h", "C05", ["C05", "C04"], S + "sharded_file_accessor.py",
  "                for key in sorted(self.minishard_dict.keys())",
  "                for key in self.minishard_dict.keys()",
  "minishard data written in arrival order instead of key order"),
 ("P-C06-a", "C06", ["C06"], S + "dyadic_pyramid.py",
  "        if (new_chunk.shape[1] > half_chunk[2]\n                and new_chunk.shape[2] > half_chunk[1]\n                and new_chunk.shape[3] > half_chunk[0]):",
  "        if False:",
  "skip the eighth octant"),
 ("P-C06-b", "C06", ["C06"], S + "dyadic_pyramid.py",
  "        if new_chunk.shape[3] > half_chunk[0]:\n            new_chunk[:, :half_chunk[2], :half_chunk[1],",
  "        if new_chunk.shape[3] >= half_chunk[0] + 2:\n            new_chunk[:, :half_chunk[2], :half_chunk[1],",
  "x-octant guard off by one (1-voxel remainder never copied)"),
 ("P-C06-c", "C06", ["C06"], S + "dyadic_pyramid.py",
  "                          load_and_downscale_old_chunk(\n                              z_idx * chunk_fetch_factor[2] + 1,\n                              y_idx * chunk_fetch_factor[1],\n                              x_idx * chunk_fetch_factor[0]))\n        if new_chunk.shape[2] > half_chunk[1]:",
  "                          load_and_downscale_old_chunk(\n                              z_idx * chunk_fetch_factor[1] + 1,\n                              y_idx * chunk_fetch_factor[1],\n                              x_idx * chunk_fetch_factor[0]))\n        if new_chunk.shape[2] > half_chunk[1]:",
  "wrong chunk_fetch_factor axis in the z+1 octant"),
 ("P-C06-d", "C06", ["C06", "C19"], S + "dyadic_pyramid.py",
  "            precomputed_io.accessor.close()",
  "            pass",
  "no accessor.close() between pyramid levels (sharded)"),
 ("P-C12-a", "C12", ["C12"], S + "file_accessor.py",
  "        chunk_path = self._chunk_path(key, chunk_coords)\n        mode = \"wb\" if overwrite else \"xb\"",
  "        chunk_path = self._chunk_path(key, chunk_coords)\n        mode = \"wb\"",
  "store_chunk ignores overwrite=False"),
 ("P-C12-b", "C12", ["C12"], S + "file_accessor.py",
  "        if \"..\" in file_path.relative_to(self.base_path).parts:\n            raise ValueError(\"only relative paths pointing under base_path \"\n                             \"are accepted\")\n        try:\n            if file_path.is_file():\n                f = file_path.open(\"rb\")",
  "        try:\n            if file_path.is_file():\n                f = file_path.open(\"rb\")",
  "fetch_file: '..' check dropped"),
 ("P-C12-c", "C12", ["C12"], S + "file_accessor.py",
  "_CHUNK_PATTERN_SUBDIR = \"{key}/{0}-{1}/{2}-{3}/{4}-{5}\"",
  "_CHUNK_PATTERN_SUBDIR = \"{key}/{0}-{1}/{4}-{5}/{2}-{3}\"",
  "deep layout with y and z directories swapped (self-consistent, undocumented path)"),
 ("P-C12-d", "C12", ["C12"], S + "file_accessor.py",
  "NO_COMPRESS_MIME_TYPES = {\n    \"application/json\",",
  "NO_COMPRESS_MIME_TYPES = {",
  "JSON files are gzipped"),
 ("P-C13-a", "C13", ["C13"], S + "sharded_file_accessor.py",
  "        atexit.register(self.close)",
  "        pass",
  "sharded accessor no longer registers its exit handler"),
 ("P-C13-b", "C13", ["C13"], S + "scripts/convert_chunks.py",
  "    for scale_index in reversed(range(len(dest_info[\"scales\"]))):",
  "    for scale_index in reversed(range(1, len(dest_info[\"scales\"]))):",
  "convert-chunks skips the first scale"),
 ("P-C13-c", "C13", ["C13"], S + "scripts/convert_chunks.py",
  "            chunk = chunk_transformer(chunk, preserve_input=False)\n",
  "",
  "dtype transformer dropped (astype(casting='equiv') then fails or mis-converts)"),
 ("P-C14-a", "C14", ["C14", "C18"], S + "sharded_http_accessor.py",
  "        range_value = f\"bytes={offset}-{offset+length-1}\"",
  "        range_value = f\"bytes={offset}-{offset+length}\"",
  "Range end off by one (one byte too many; caught only by the length check)"),
 ("P-C14-b", "C14", ["C14", "C18"], S + "sharded_http_accessor.py",
  "        if len(content) != length:",
  "        if False:",
  "length check on range replies dropped"),
 ("P-C14-c", "C14", ["C14", "C18"], S + "http_accessor.py",
  "            r = self._session.get(file_url)\n            r.raise_for_status()",
  "            r = self._session.get(file_url)",
  "raise_for_status dropped: error pages returned as data"),
 ("P-C14-d", "C14", ["C14"], S + "sharded_http_accessor.py",
  "                file_url += \".data\"\n                offset = offset - self.header_byte_length",
  "                file_url += \".data\"",
  "legacy .data offset not rebased"),
 ("P-C14-e", "C14", ["C14"], S + "http_accessor.py",
  "            r.path if r.path[-1] == \"/\" else r.path + \"/\",",
  "            r.path,",
  "base URL without the trailing-slash fix"),
 ("P-C15-a", "C15", ["C15"], S + "scripts/slices_to_precomputed.py",
  "    slice_filename_lists = [sorted(d.iterdir()) for d in slice_dirs]",
  "    slice_filename_lists = [list(d.iterdir()) for d in slice_dirs]",
  "sorted() removed: slices in enumeration order"),
 ("P-C15-b", "C15", ["C15"], S + "scripts/slices_to_precomputed.py",
  "    \"P\": -1,\n",
  "    \"P\": 1,\n",
  "inversion table: P no longer reversed"),
 ("P-C15-c", "C15", ["C15"], S + "scripts/slices_to_precomputed.py",
  "        block = np.moveaxis(block, (3, 2, 1),\n                            (3 - a for a in input_axis_permutation))",
  "        block = np.moveaxis(block, (3, 2, 1),\n                            (3 - a for a in permutation_to_input))",
  "moveaxis with the inverse permutation"),
 ("P-C18-a", "C18", ["C18"], S + "file_accessor.py",
  "                with chunk_path.open(mode) as f:\n                    f.write(buf)\n        except OSError as exc:",
  "                with chunk_path.open(mode) as f:\n                    f.write(buf)\n        except FileNotFoundError as exc:",
  "store_chunk: except narrowed to FileNotFoundError (raw OSError escapes -> still an I/O error: expected NOT caught)"),
 ("P-C18-b", "C18", ["C18"], S + "sharded_file_accessor.py",
  "            fp.seek(0)\n            fp.write(bytes(sh_idx_buf))",
  "            fp.seek(0)\n            fp.write(bytes(sh_idx_buf))\n            fp.flush()",
  "neutral change (flush after index) -- control: must NOT be reported"),
 ("P-C18-c", "C18", ["C18"], S + "file_accessor.py",
  "            with f:\n                return f.read()\n        except OSError as exc:\n            raise DataAccessError(\n                \"Error accessing chunk \"",
  "            with f:\n                return f.read()\n        except OSError:\n            return b\"\"\n        except ValueError as exc:\n            raise DataAccessError(\n                \"Error accessing chunk \"",
  "fetch_chunk swallows I/O errors and returns b''"),
 ("P-C18-d", "C18", ["C18"], S + "sharded_file_accessor.py",
  "            fp.write(b\"\\0\"*int((2**self.shard_spec.minishard_bits) * 16))\n            sh_idx_buf = bytearray()",
  "            fp.write(b\"\\xff\"*int((2**self.shard_spec.minishard_bits) * 16))\n            sh_idx_buf = bytearray()",
  "shard index placeholder is 0xff garbage instead of zeros (interrupted close leaves a bogus index)"),
 ("P-C19-a", "C19", ["C19"], S + "scripts/volume_to_precomputed_pyramid.py",
  "    neuroglancer_scripts.scripts.generate_scales_info.set_info_params(\n        info,\n        dataset_type=dataset_type,\n        encoding=encoding\n    )\n",
  "",
  "all-in-one skips set_info_params (--type/--encoding ignored)"),
 ("P-C19-b", "C19", ["C19", "C12"], S + "file_accessor.py",
  "                    mime_type=\"application/octet-stream\",\n                    overwrite=True):",
  "                    mime_type=\"application/octet-stream\",\n                    overwrite=False):",
  "store_chunk default overwrite=False: repeated steps fail"),
]


def sh(cmd, env=None, timeout=3600, cwd=None):
    p = subprocess.run(cmd, shell=isinstance(cmd, str), capture_output=True,
                       text=True, env=env, timeout=timeout, cwd=cwd)
    return p.returncode, p.stdout + p.stderr


def main():
    want = set(sys.argv[1:])
    out_path = f"{V}/seeded/planted/results.json"
    os.makedirs(os.path.dirname(out_path), exist_ok=True)
    results = {}
    if os.path.exists(out_path):
        results = json.load(open(out_path))
    for (pid_, prop, checks, path, old, new, desc) in P:
        if want and pid_ not in want:
            continue
        if not want and pid_ in results and "caught_by" in results[pid_]:
            continue            # resume
        wt = f"/tmp/mw/{pid_}"
        sh(f"git -C /repo worktree remove --force {wt}")
        rc, o = sh(f"git -C /repo worktree add -q {wt} HEAD")
        assert rc == 0, o
        rec = {"property": prop, "description": desc, "file": path}
        try:
            src = open(f"{wt}/{path}").read()
            if old not in src:
                rec["error"] = "anchor text not found (source changed?)"
                results[pid_] = rec
                print(pid_, "ANCHOR NOT FOUND")
                continue
            open(f"{wt}/{path}", "w").write(src.replace(old, new, 1))
            rc, o = sh(f"git -C {wt} diff")
            os.makedirs(f"{V}/seeded/planted", exist_ok=True)
            open(f"{V}/seeded/planted/{pid_}.diff", "w").write(o)
            rc, o = sh(f"python3 {V}/tools/baseline.py {wt}")
            rec["baseline"] = o.strip().splitlines()[0]
            rec["baseline_ok"] = rc == 0
            rec["checks"] = {}
            for c in checks:
                env = dict(os.environ, VERIF_REPO_ROOT=wt)
                t0 = time.time()
                rc, o = sh([PY, f"{V}/checks/{c.lower()}.py", "--tier",
                            "quick", "--no-evidence"], env=env, cwd=V)
                e = {"quick_exit": rc, "quick_s": round(time.time() - t0),
                     "keys": sorted(set(
                         l.split("key=")[-1].strip() for l in o.splitlines()
                         if "oracle=" in l))[:5]}
                if rc == 0:
                    t0 = time.time()
                    rc, o = sh([PY, f"{V}/checks/{c.lower()}.py", "--tier",
                                "thorough", "--budget", "150",
                                "--no-evidence"], env=env, cwd=V)
                    e["thorough_exit"] = rc
                    e["thorough_s"] = round(time.time() - t0)
                    e["keys"] = sorted(set(
                        l.split("key=")[-1].strip() for l in o.splitlines()
                        if "oracle=" in l))[:5]
                if rc == 2:
                    e["harness_error"] = o[-800:]
                for l in o.splitlines():
                    if l.startswith("VIOLATION ") and "replay=" in l:
                        rp = l.split("replay=")[1].strip()
                        if os.path.exists(rp):
                            os.remove(rp)
                rec["checks"][c] = e
            rec["caught_by"] = [c for c, e in rec["checks"].items()
                                if e.get("quick_exit") == 1
                                or e.get("thorough_exit") == 1]
        finally:
            sh(f"git -C /repo worktree remove --force {wt}")
            sh("git -C /repo worktree prune")
        results[pid_] = rec
        json.dump(results, open(out_path, "w"), indent=1, sort_keys=True)
        print(pid_, rec.get("baseline_ok"), rec.get("caught_by"),
              {c: (e.get("quick_exit"), e.get("thorough_exit"))
               for c, e in rec.get("checks", {}).items()}, flush=True)


if __name__ == "__main__":
    main()
