#!/usr/bin/env python3
"""Markdown table of seeded/benign/*.json (behaviour-preserving changes)."""
import glob, json, os, re
V = os.path.dirname(os.path.dirname(os.path.abspath(__file__)))
print("| id | change | checks run (quick tier) | result |")
print("|---|---|---|---|")
for f in sorted(glob.glob(f"{V}/seeded/benign/B-*.json")):
    r = json.load(open(f))
    txt = f[:-5] + ".txt"
    desc = ""
    if os.path.exists(txt):
        desc = " ".join(open(txt).read().split())
        desc = re.split(r"(?<=[.;])\s", desc)[0][:200].replace("|", "/")
    checks = r.get("checks", {})
    res = ("silent" if r.get("silent") else
           "ALARM: " + ", ".join(f"{c} exit {e['quick_exit']}"
                                 for c, e in checks.items()
                                 if e["quick_exit"] != 0))
    print(f"| {r['id']} | {desc} | {' '.join(checks)} | {res} |")
