#!/bin/bash
# usage: eval_all_mutants.sh <base dir> <id offset>   e.g. /tmp/mut 0   or /tmp/mut2 2
BASE=${1:-/tmp/mut}; OFF=${2:-0}
mkdir -p /tmp/mut/results
declare -A EXTRA=( [C03]="C13" [C04]="C05" [C05]="C04" [C06]="C19" [C10]="" [C12]="C18" [C13]="C03 C05" [C14]="C18" [C15]="" [C18]="C12 C14" [C19]="C05 C06" )
for pdir in $BASE/C*/MUTANTS/*; do
  [ -f "$pdir/patch.diff" ] || continue
  pid=$(echo $pdir | awk -F/ '{print $(NF-2)}'); n=$(basename $pdir); id="$pid-$((n+OFF))"
  [ -f /tmp/mut/results/$id.json ] && continue
  echo "=== $id $(date +%H:%M:%S)"
  python3 /verif/tools/try_mutant.py $pdir $id $pid ${EXTRA[$pid]} --keep > /tmp/mut/results/$id.json 2>/tmp/mut/results/$id.err
  python3 -c "
import json; r=json.load(open('/tmp/mut/results/$id.json'))
print('   confirmed', r.get('confirmed'), 'caught_by', r.get('caught_by'), {c:(e['quick_exit'], e.get('thorough_exit')) for c,e in r.get('checks',{}).items()})"
done
echo ALL-DONE
