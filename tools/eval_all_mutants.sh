#!/bin/bash
# usage: eval_all_mutants.sh  (evaluates /tmp/mut/*/MUTANTS/*; results in /tmp/mut/results/<id>.json)
mkdir -p /tmp/mut/results
declare -A EXTRA=( [C03]="C13" [C04]="C05" [C05]="C04" [C06]="C19" [C10]="" [C12]="C18" [C13]="C03 C05" [C14]="C18" [C15]="" [C18]="C12 C14" [C19]="C05 C06" )
for pdir in /tmp/mut/C*/MUTANTS/*; do
  [ -f "$pdir/patch.diff" ] || continue
  pid=$(echo $pdir | cut -d/ -f4); n=$(basename $pdir); id="$pid-$n"
  [ -f /tmp/mut/results/$id.json ] && continue
  echo "=== $id $(date +%H:%M:%S)"
  python3 /verif/tools/try_mutant.py $pdir $id $pid ${EXTRA[$pid]} --keep > /tmp/mut/results/$id.json 2>/tmp/mut/results/$id.err
  python3 -c "
import json; r=json.load(open('/tmp/mut/results/$id.json'))
print('   confirmed', r.get('confirmed'), 'caught_by', r.get('caught_by'), {c:(e['quick_exit'], e.get('thorough_exit')) for c,e in r.get('checks',{}).items()})"
done
echo ALL-DONE
