#!/usr/bin/env python3
"""For every 'fix:' commit of /repo: revert it alone in a scratch worktree and
run the check of the property it was found by -- the violation must come back
(known_findings 'fixed' entries suppress nothing)."""
import json, os, subprocess, sys
V = os.path.dirname(os.path.dirname(os.path.abspath(__file__)))
PY = "/venv/bin/python"
def sh(cmd, env=None, cwd=None, timeout=3600):
    p = subprocess.run(cmd, shell=isinstance(cmd, str), capture_output=True, text=True, env=env, cwd=cwd, timeout=timeout)
    return p.returncode, p.stdout + p.stderr
kf = json.load(open(f"{V}/known_findings.json"))["findings"]
out = {}
for f in kf:
    if f["status"] != "fixed":
        continue
    c = f["commit"]; prop = f["property"]
    wt = f"/tmp/mw/rev-{c}"
    sh(f"git -C /repo worktree remove --force {wt}")
    rc, o = sh(f"git -C /repo worktree add -q {wt} HEAD"); assert rc == 0, o
    try:
        rc, o = sh(f"git -C {wt} revert --no-commit {c}")
        if rc != 0:
            out[c] = {"property": prop, "error": "revert conflict"}
            print(c, prop, "REVERT CONFLICT"); continue
        env = dict(os.environ, VERIF_REPO_ROOT=wt)
        rc, o = sh([PY, f"{V}/checks/{prop.lower()}.py", "--tier", "quick", "--no-evidence"], env=env, cwd=V)
        keys = sorted(set(l.split("key=")[-1].strip() for l in o.splitlines() if "oracle=" in l))
        for l in o.splitlines():
            if l.startswith("VIOLATION ") and "replay=" in l:
                rp = l.split("replay=")[1].strip()
                if os.path.exists(rp): os.remove(rp)
        out[c] = {"property": prop, "quick_exit": rc, "keys": keys[:6], "expected_key": f["key"]}
        print(c, prop, "exit", rc, keys[:4], flush=True)
    finally:
        sh(f"git -C /repo worktree remove --force {wt}"); sh("git -C /repo worktree prune")
json.dump(out, open(f"{V}/seeded/reverted_fixes.json", "w"), indent=1, sort_keys=True)
