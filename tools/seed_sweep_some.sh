#!/bin/bash
# usage: seed_sweep_some.sh "<checks>" <first> <last> [tier]
tier=${4:-thorough}
for seed in $(seq $2 $3); do
  for c in $1; do
    out=$(VERIF_SEED=$seed timeout 3000 /venv/bin/python checks/$c.py --tier $tier --no-evidence 2>&1); rc=$?
    echo "seed=$seed $c rc=$rc $(echo "$out" | tail -1)"
    if [ $rc -ne 0 ]; then echo "$out" | grep -v "^Exception ignored\|^Traceback\|^  File\|^    \|SimCrash" | tail -20; fi
  done
done
echo SWEEP-DONE
