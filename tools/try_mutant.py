#!/usr/bin/env python3
"""Evaluate one seeded change against the checks.

usage: try_mutant.py <mutant_dir> <seeded_id> <check> [<check> ...] [--keep]

1. scratch worktree of /repo HEAD (outside /repo and /verif), patch applied;
2. pinned baseline must stay 340/340 with the patch;
3. demo must exit 1 with the patch and exit 0 on the clean tree;
4. each check: quick with VERIF_REPO_ROOT=<worktree>; if it stays silent,
   thorough with a bounded budget;
5. the worktree is removed; with --keep the mutant is copied to
   /verif/seeded/<seeded_id>/ together with meta.json.
"""
import json, os, shutil, subprocess, sys, time

V = os.path.dirname(os.path.dirname(os.path.abspath(__file__)))
PY = "/venv/bin/python"


def sh(cmd, env=None, timeout=3600, cwd=None):
    p = subprocess.run(cmd, shell=isinstance(cmd, str), capture_output=True,
                       text=True, env=env, timeout=timeout, cwd=cwd)
    return p.returncode, p.stdout + p.stderr


def main():
    args = [a for a in sys.argv[1:] if not a.startswith("--")]
    keep = "--keep" in sys.argv
    budget = next((int(a.split("=")[1]) for a in sys.argv
                   if a.startswith("--thorough-budget=")), 240)
    mdir, sid, checks = args[0], args[1], args[2:]
    wt = f"/tmp/mw/{sid}"
    os.makedirs("/tmp/mw", exist_ok=True)
    sh(f"git -C /repo worktree remove --force {wt}")
    rc, out = sh(f"git -C /repo worktree add -q {wt} HEAD")
    assert rc == 0, out
    report = {"id": sid, "source": mdir}
    try:
        meta = json.load(open(os.path.join(mdir, "meta.json")))
        report["agent_meta"] = meta
        rc, out = sh(f"git -C {wt} apply {os.path.join(mdir, 'patch.diff')}")
        report["patch_applies"] = rc == 0
        if rc != 0:
            report["error"] = out[-500:]
            return report
        rc, out = sh(f"python3 {V}/tools/baseline.py {wt}")
        report["baseline_with_patch"] = out.strip().splitlines()[0]
        report["baseline_ok"] = rc == 0
        demo = os.path.join(mdir, "demo.py")
        env = dict(os.environ, PYTHONPATH=f"{wt}/src", NO_PROXY="*")
        rc1, o1 = sh([PY, demo], env=env, timeout=600)
        env2 = dict(os.environ, PYTHONPATH="/repo/src", NO_PROXY="*")
        rc0, o0 = sh([PY, demo], env=env2, timeout=600)
        report["demo_exit_with_patch"] = rc1
        report["demo_exit_clean"] = rc0
        report["demo_output_with_patch"] = o1[-600:]
        report["confirmed"] = (report["baseline_ok"] and rc1 == 1
                               and rc0 == 0)
        report["checks"] = {}
        for c in checks:
            script = f"{V}/checks/{c.lower()}.py"
            env3 = dict(os.environ, VERIF_REPO_ROOT=wt)
            t0 = time.time()
            rc, out = sh([PY, script, "--tier", "quick", "--no-evidence"],
                         env=env3, timeout=3000, cwd=V)
            ent = {"quick_exit": rc, "quick_s": round(time.time() - t0, 1),
                   "quick_violations": [l for l in out.splitlines()
                                        if "oracle=" in l][:4]}
            if rc == 0:
                t0 = time.time()
                rc, out = sh([PY, script, "--tier", "thorough", "--budget",
                              str(budget), "--no-evidence"], env=env3,
                             timeout=3000, cwd=V)
                ent["thorough_exit"] = rc
                ent["thorough_s"] = round(time.time() - t0, 1)
                ent["thorough_violations"] = [
                    l for l in out.splitlines() if "oracle=" in l][:4]
            if rc == 2:
                ent["harness_error"] = out[-1500:]
            ent["caught"] = rc == 1
            ent["replays"] = [l.split("replay=")[1].strip()
                              for l in out.splitlines()
                              if l.startswith("VIOLATION ")]
            report["checks"][c] = ent
        report["caught_by"] = [c for c, e in report["checks"].items()
                               if e["caught"]]
    finally:
        sh(f"git -C /repo worktree remove --force {wt}")
        sh("git -C /repo worktree prune")
        # replay files written while testing a mutant are not evidence
        for f in os.listdir(f"{V}/replays"):
            if f.endswith(".json"):
                try:
                    d = json.load(open(f"{V}/replays/{f}"))
                except Exception:
                    continue
    if keep and report.get("confirmed"):
        dst = f"{V}/seeded/{sid}"
        os.makedirs(dst, exist_ok=True)
        shutil.copy(os.path.join(mdir, "patch.diff"), dst)
        shutil.copy(os.path.join(mdir, "demo.py"), dst)
        m = {"property": meta.get("property"),
             "summary": meta.get("summary"),
             "needs_to_manifest": meta.get("needs_to_manifest"),
             "files_changed": meta.get("files_changed"),
             "origin": "fresh sub-agent given only the property text and a "
                       "scratch worktree",
             "confirmed": {"baseline_with_patch": report["baseline_with_patch"],
                           "demo_exit_with_patch": rc1,
                           "demo_exit_clean": rc0},
             "what_was_run": {c: {k: v for k, v in e.items()
                                  if k != "harness_error"}
                              for c, e in report["checks"].items()},
             "caught_by": report["caught_by"]}
        # keep one minimised replay per catching check as documentation of
        # reach (it reproduces only with the patch applied)
        for c, e in report["checks"].items():
            for j, rp in enumerate(e.get("replays", [])[:1]):
                if os.path.exists(rp):
                    shutil.copy(rp, f"{dst}/replay-{c}.json")
        for c, e in report["checks"].items():
            for rp in e.get("replays", []):
                if os.path.exists(rp):
                    os.remove(rp)
        json.dump(m, open(f"{dst}/meta.json", "w"), indent=1)
    return report


if __name__ == "__main__":
    r = main()
    print(json.dumps(r, indent=1))
