#!/bin/bash
# usage: run_all.sh quick|thorough  -- runs every registered check in /verif against /repo, then validates evidence
tier=${1:-quick}
cd "$(dirname "$0")/.."
rc_all=0
for c in c03 c04 c05 c06 c10 c12 c13 c14 c15 c18 c19; do
  /venv/bin/python checks/$c.py --tier $tier > /tmp/verif-$c.out 2>&1; rc=$?
  tail -1 /tmp/verif-$c.out; grep -E "^(VIOLATION|KNOWN-FINDING|HARNESS)" /tmp/verif-$c.out | cut -c1-160
  [ $rc -ne 0 ] && { echo "  $c exit $rc"; rc_all=1; }
done
python3-vt - <<'PY'
import json, glob, jsonschema
s = json.load(open('/root/.vp/EVIDENCE.schema.json'))
for f in sorted(glob.glob('evidence/C*.json')):
    d = json.load(open(f)); jsonschema.validate(d, s)
    c = d['coverage']
    print(f, d['tier'], 'evals', c['evaluations'], 'distinct', c['distinct_nontrivial'], 'viol', d['violations'], 'wall', d['wall_s'])
PY
exit $rc_all
