#!/bin/bash
# usage: seed_sweep.sh <first> <last> [tier]   -- runs every check under VERIF_SEED=first..last; prints non-zero exits
tier=${3:-quick}
for seed in $(seq $1 $2); do
  for c in c03 c04 c05 c06 c10 c12 c13 c14 c15 c18 c19; do
    out=$(VERIF_SEED=$seed timeout 3000 /venv/bin/python checks/$c.py --tier $tier --no-evidence 2>&1); rc=$?
    echo "seed=$seed $c rc=$rc $(echo "$out" | tail -1)"
    if [ $rc -ne 0 ]; then echo "$out" | tail -30; fi
  done
done
echo SWEEP-DONE
