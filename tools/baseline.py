#!/usr/bin/env python3
"""Run the pinned baseline in a repo root and compare with BASELINE.json's
stable_pass list.  Usage: baseline.py [repo_root]   (exit 0 iff all pass)."""
import json, os, subprocess, sys, tempfile
import xml.etree.ElementTree as ET
root = sys.argv[1] if len(sys.argv) > 1 else "/repo"
base = json.load(open("/root/.vp/BASELINE.json"))
with tempfile.TemporaryDirectory() as d:
    x = os.path.join(d, "j.xml")
    env = dict(os.environ); env.pop("NEUROGLANCER_SCRIPTS_VERIF", None)
    env["PYTHONPATH"] = os.path.join(root, "src")
    # the repository's on-disk shard buffers leave temporary directories
    # behind when run on a real file system: keep them inside our own
    env["TMPDIR"] = d
    subprocess.run(["/venv/bin/python", "-m", "pytest", "-q", "-p",
                    "no:cacheprovider", "--timeout=900",
                    "--continue-on-collection-errors", f"--junitxml={x}"],
                   cwd=root, env=env, stdout=subprocess.DEVNULL,
                   stderr=subprocess.DEVNULL)
    passed = set()
    for tc in ET.parse(x).getroot().iter("testcase"):
        if not any(c.tag in ("failure", "error", "skipped") for c in tc):
            passed.add(f"{tc.get('classname')}::{tc.get('name')}")
missing = sorted(set(base["stable_pass"]) - passed)
print(f"baseline: {len(base['stable_pass']) - len(missing)}/"
      f"{len(base['stable_pass'])} stable tests pass in {root}")
for m in missing[:20]:
    print("  MISSING", m)
sys.exit(1 if missing else 0)
