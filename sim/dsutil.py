"""Dataset helpers shared by the checks: infos, chunk grids, deterministic
position-dependent voxel data, reading a whole dataset back."""

import itertools
import json

import numpy as np

from sim.core import excname, sut

NG_TYPES = ["uint8", "uint16", "uint32", "uint64", "float32"]


def ceil_div(a, b):
    return -(-a // b)


def chunk_grid(size, cs):
    """All chunk coordinate tuples (xmin,xmax,ymin,ymax,zmin,zmax)."""
    out = []
    for ix, iy, iz in itertools.product(range(ceil_div(size[0], cs[0])),
                                        range(ceil_div(size[1], cs[1])),
                                        range(ceil_div(size[2], cs[2]))):
        out.append((ix * cs[0], min((ix + 1) * cs[0], size[0]),
                    iy * cs[1], min((iy + 1) * cs[1], size[1]),
                    iz * cs[2], min((iz + 1) * cs[2], size[2])))
    return out


def voxels(dtype, nchan, coords, salt, labels=None):
    """Deterministic (C,Z,Y,X) array whose value depends on the absolute
    voxel position, the channel and ``salt`` (scale / write serial), so that
    any transposition, offset or stale read changes values."""
    xmin, xmax, ymin, ymax, zmin, zmax = coords
    dt = np.dtype(dtype)
    c = np.arange(nchan, dtype=np.uint64).reshape(-1, 1, 1, 1)
    z = np.arange(zmin, zmax, dtype=np.uint64).reshape(1, -1, 1, 1)
    y = np.arange(ymin, ymax, dtype=np.uint64).reshape(1, 1, -1, 1)
    x = np.arange(xmin, xmax, dtype=np.uint64).reshape(1, 1, 1, -1)
    v = ((x + np.uint64(1)) * np.uint64(73856093)
         ^ (y + np.uint64(1)) * np.uint64(19349663)
         ^ (z + np.uint64(1)) * np.uint64(83492791)
         ^ (c + np.uint64(1)) * np.uint64(2654435761)
         ^ np.uint64((salt + 1) * 40503))
    v = v ^ (v >> np.uint64(13))
    if labels:
        v = v % np.uint64(labels)
        if dt.kind == "f":
            return v.astype(dt)
        return v.astype(dt)
    if dt.kind == "f":
        return ((v % np.uint64(1 << 20)).astype(np.float64) / 4.0).astype(dt)
    if dt.itemsize == 8:
        return v.astype(dt)
    return (v % np.uint64(1 << (8 * dt.itemsize))).astype(dt)


def ramp(nchan, coords, salt):
    """Smooth uint8 ramp (for JPEG): distinct slopes per axis and channel."""
    xmin, xmax, ymin, ymax, zmin, zmax = coords
    c = np.arange(nchan).reshape(-1, 1, 1, 1)
    z = np.arange(zmin, zmax).reshape(1, -1, 1, 1)
    y = np.arange(ymin, ymax).reshape(1, 1, -1, 1)
    x = np.arange(xmin, xmax).reshape(1, 1, 1, -1)
    v = 10 + 3 * x + 8 * y + 15 * z + 60 * c + (salt % 5) * 4
    return np.clip(v, 0, 255).astype(np.uint8)


def make_info(data_type, nchan, scales, typ="image"):
    """scales: list of dict(key,size,cs(list of chunk sizes),encoding,
    block=None, sharding=None)."""
    out = {"type": typ, "data_type": data_type, "num_channels": nchan,
           "scales": []}
    for s in scales:
        d = {"key": s["key"], "size": list(s["size"]),
             "chunk_sizes": [list(c) for c in s["cs"]],
             "encoding": s["encoding"],
             "resolution": list(s.get("resolution", [1, 1, 1])),
             "voxel_offset": [0, 0, 0]}
        if s["encoding"] == "compressed_segmentation":
            d["compressed_segmentation_block_size"] = list(s["block"])
        if s.get("sharding"):
            mb, sb, pb, ienc, denc = s["sharding"]
            d["sharding"] = {"@type": "neuroglancer_uint64_sharded_v1",
                             "minishard_bits": mb, "shard_bits": sb,
                             "preshift_bits": pb, "hash": "identity",
                             "minishard_index_encoding": ienc,
                             "data_encoding": denc}
        out["scales"].append(d)
    return out


def info_bytes(info):
    return json.dumps(info, separators=(",", ":"), sort_keys=True).encode()


def read_dataset(url, info, which=None, options=None):
    """Read chunks through a *fresh* accessor + PrecomputedIO.

    Returns {(key, coords): ('ok', ndarray) | ('absent', name) |
    ('invalid', excname)}.  ``which`` restricts to a list of (key, coords).
    If the dataset cannot even be opened every entry is 'invalid'.
    """
    from neuroglancer_scripts import precomputed_io
    from neuroglancer_scripts.accessor import (DataAccessError,
                                               get_accessor_for_url)
    items = which
    if items is None:
        items = [(s["key"], co) for s in info["scales"]
                 for co in chunk_grid(s["size"], s["chunk_sizes"][0])]
    st, acc = sut(get_accessor_for_url, url, dict(options or {}))
    if st == "ok":
        st, pio = sut(precomputed_io.get_IO_for_existing_dataset, acc)
        if st == "exc":
            acc = pio
    if st == "exc":
        return {it: ("invalid", "open:" + excname(acc)) for it in items}
    out = {}
    for key, co in items:
        st, v = sut(pio.read_chunk, key, co)
        if st == "ok":
            out[(key, co)] = ("ok", np.array(v))
        elif isinstance(v, DataAccessError):
            out[(key, co)] = ("absent", excname(v))
        else:
            out[(key, co)] = ("invalid", excname(v))
    return out
