"""SimProc: process lifecycle (atexit, exit status, death) and simulated names.

Only SimFS state survives a simulated process.
"""

import atexit
import contextlib
import gc
import io
import os
import sys

from sim.core import HarnessError
from sim.simfs import SimCrash

_ORIG = {}
_HANDLERS = [None]     # list of (fn, args, kwargs) of the current process


def _register(fn, *args, **kwargs):
    h = _HANDLERS[0]
    if h is not None:
        h.append((fn, args, kwargs))
    # handlers registered outside any simulated process are dropped: the
    # harness decides when (and whether) an "exit" happens.
    return fn


def _unregister(fn):
    h = _HANDLERS[0]
    if h is not None:
        h[:] = [e for e in h if e[0] != fn]


def install():
    if _ORIG:
        return
    _ORIG["register"] = atexit.register
    _ORIG["unregister"] = atexit.unregister
    atexit.register = _register
    atexit.unregister = _unregister
    install_names()


class NameSource:
    """Deterministic replacement for uuid4 / TemporaryDirectory names."""

    def __init__(self):
        self.n = 0

    def next(self, prefix):
        self.n += 1
        return f"{prefix}{self.n:06d}"


NAMES = NameSource()


class _FakeUUID:
    def __init__(self, s):
        self.s = s
        self.hex = s.replace("-", "")

    def __str__(self):
        return self.s


SIM_PID = 4242


class _DetNames:
    """tempfile's candidate-name sequence: deterministic when the temporary
    file is being made for repository code (first caller outside tempfile),
    the genuine random one for everybody else (harness scratch directories
    on the real file system must not collide across workers)."""

    def __init__(self, real):
        self._real = real

    def __iter__(self):
        return self

    def __next__(self):
        if _repo_is_calling(2):
            return NAMES.next("tmp")
        return next(self._real)


def _repo_is_calling(depth):
    f = sys._getframe(depth)
    while f is not None and f.f_globals.get("__name__") in (
            "tempfile", "sim.simproc", "contextlib"):
        f = f.f_back
    return (f is not None and f.f_globals.get("__name__", "")
            .startswith("neuroglancer_scripts"))


def _gettempdir():
    """Repository code asking for the default temporary directory gets the
    simulated machine's (/simfs/tmp, created on first use), so that
    mkdtemp()/mkstemp()/NamedTemporaryFile() without dir= stay inside the
    simulation instead of escaping to the real /tmp."""
    from sim import simfs
    fs = simfs._CURRENT[0]
    if fs is not None and _repo_is_calling(2):
        fs.dirs.setdefault("/simfs/tmp", True)
        return "/simfs/tmp"
    return _ORIG["gettempdir"]()


def _uuid4():
    return _FakeUUID(NAMES.next("u-"))


_LIVE_TMP = []      # temp-dir objects created by the current simulated process


def _finalize_tempdirs():
    """What weakref.finalize's exit hook does for tempfile: remove every
    TemporaryDirectory that is still alive when the process exits."""
    for ref in list(_LIVE_TMP):
        t = ref()
        if t is not None:
            t.cleanup()
    del _LIVE_TMP[:]


class _SimTemporaryDirectory:
    """tempfile.TemporaryDirectory on SimFS, with its lifecycle:

    * the directory is created on construction (a raw mkdir);
    * it is removed when the object is cleaned up, garbage-collected, or --
      if still alive -- when the process exits.  The real class does the
      latter through weakref.finalize, whose exit hook is registered with
      atexit when the first finalizer of the process is created; exit
      handlers run last-registered-first, so that hook runs BEFORE handlers
      registered earlier (e.g. an accessor's close()).  The simulated exit
      hook is therefore queued at the position of the first creation;
    * a killed process cleans nothing up.
    """

    def __init__(self, *a, **kw):
        from sim import simfs
        self.name = "/simfs/tmp/" + NAMES.next("t-")
        self._fs = simfs._CURRENT[0]
        self._epoch = self._fs.epoch if self._fs is not None else None
        self._alive = True
        if self._fs is not None:
            self._fs.dirs.setdefault("/simfs/tmp", True)
            os.mkdir(self.name)
        h = _HANDLERS[0]
        if h is not None:
            if not any(e[0] is _finalize_tempdirs for e in h):
                h.append((_finalize_tempdirs, (), {}))
            import weakref
            _LIVE_TMP.append(weakref.ref(self))   # like finalize: weak

    def cleanup(self):
        if not self._alive:
            return
        self._alive = False
        fs = self._fs
        if fs is None or fs.dead or fs.epoch != self._epoch:
            return
        pre = self.name + "/"
        for pth in [q for q in fs.files if q.startswith(pre)]:
            del fs.files[pth]
        for pth in [q for q in fs.dirs if q == self.name
                    or q.startswith(pre)]:
            del fs.dirs[pth]
        fs.log.add("TMPDIR-CLEANUP", self.name)

    def __del__(self):
        try:
            self.cleanup()
        except Exception:  # noqa: BLE001 - never raise from a finalizer
            pass

    def __enter__(self):
        return self.name

    def __exit__(self, *exc):
        self.cleanup()
        return False


def _from_repo(sim, real):
    """Dispatch on the caller: repository code gets the simulated version,
    every other library the genuine one."""
    def dispatch(*a, **kw):
        caller = sys._getframe(1).f_globals.get("__name__", "")
        if caller.startswith("neuroglancer_scripts"):
            return sim(*a, **kw)
        return real(*a, **kw)
    return dispatch


def install_names():
    # The seam is the module-level names the repository looks up at call
    # time.  A refactoring may stop using one of them: install tolerantly
    # (an unused name is harmless) and fall back to the stdlib modules so
    # that `import uuid; uuid.uuid4()` / `tempfile.TemporaryDirectory()`
    # spellings are covered as well.
    import tempfile
    import uuid
    try:
        from neuroglancer_scripts import sharded_file_accessor as sfa
    except ImportError:
        sfa = None
    if "uuid4" not in _ORIG:
        _ORIG["uuid4"] = uuid.uuid4
        _ORIG["TemporaryDirectory"] = tempfile.TemporaryDirectory
    if sfa is not None:
        sfa.uuid4 = _uuid4
        sfa.TemporaryDirectory = _SimTemporaryDirectory
    uuid.uuid4 = _from_repo(_uuid4, _ORIG["uuid4"])
    # other per-process / per-call identifiers a writer may put into a
    # temporary name: the pid, tempfile's random names, the default temp dir
    if "getpid" not in _ORIG:
        import secrets
        _ORIG["getpid"] = os.getpid
        _ORIG["gettempdir"] = tempfile.gettempdir
        os.getpid = _from_repo(lambda: SIM_PID, _ORIG["getpid"])
        tempfile.gettempdir = _gettempdir
        tempfile._name_sequence = _DetNames(tempfile._RandomNameSequence())
        _ORIG["token_hex"] = secrets.token_hex
        secrets.token_hex = _from_repo(
            lambda n=None: NAMES.next("x").encode().hex()[-2 * (n or 32):]
            .rjust(2 * (n or 32), "0"),
            _ORIG["token_hex"])
    tempfile.TemporaryDirectory = _from_repo(_SimTemporaryDirectory,
                                             _ORIG["TemporaryDirectory"])


class ProcResult:
    def __init__(self):
        self.status = None        # int exit status, or None if killed
        self.exc = None           # uncaught exception (repr class name)
        self.exc_obj = None
        self.killed = False
        self.handler_errors = []  # class names of exceptions in exit handlers
        self.n_handlers = 0
        self.stdout = ""


class _Sink(io.StringIO):
    pass


def run_process(fn, *args, run_exit_handlers=True, fs=None, **kwargs):
    """Run ``fn(*args)`` as a simulated process.

    Mirrors CPython: return value / SystemExit / uncaught exception map to an
    exit status; exit handlers run LIFO, their exceptions are reported and
    ignored (they do not change the status).  A SimCrash anywhere kills the
    process: no further handlers, no status.
    """
    install()
    if _HANDLERS[0] is not None:
        raise HarnessError("nested simulated processes")
    res = ProcResult()
    handlers = _HANDLERS[0] = []
    out = _Sink()
    saved_argv = sys.argv
    try:
        with contextlib.redirect_stdout(out), contextlib.redirect_stderr(out):
            try:
                try:
                    rv = fn(*args, **kwargs)
                    if rv is None:
                        res.status = 0
                    elif isinstance(rv, int):
                        res.status = rv & 0xFF
                    else:
                        res.status = 1
                except SystemExit as e:
                    c = e.code
                    res.status = (0 if c is None else c & 0xFF
                                  if isinstance(c, int) else 1)
                except SimCrash:
                    raise
                except Exception as e:  # noqa: BLE001
                    res.status = 1
                    res.exc = type(e).__name__
                    res.exc_obj = e
                if run_exit_handlers:
                    res.n_handlers = len(handlers)
                    while handlers:
                        h, a, kw = handlers.pop()
                        try:
                            h(*a, **kw)
                        except SimCrash:
                            raise
                        except Exception as e:  # noqa: BLE001
                            res.handler_errors.append(type(e).__name__)
                else:
                    res.killed = True
                    res.status = None
            except SimCrash:
                res.killed = True
                res.status = None
    finally:
        _HANDLERS[0] = None
        # whatever is still alive belongs to a process that no longer exists:
        # a normal exit has run the finalizer hook above, a killed process
        # cleans nothing up
        for ref in _LIVE_TMP:
            t = ref()
            if t is not None:
                t._alive = False
        del _LIVE_TMP[:]
        sys.argv = saved_argv
        handlers.clear()
        res.stdout = out.getvalue()
        res.exc_obj = None if res.exc_obj is None else res.exc_obj
        gc.collect()
        if fs is not None:
            fs.restart()
    return res
