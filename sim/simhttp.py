"""SimHTTP: the HTTP transport and a static web server model.

``requests.Session`` is replaced by a subclass that mounts a transport
adapter for http:// and https://.  The adapter receives the *prepared*
request produced by the real ``requests`` library, asks the server model for
(status, headers, body) and returns a real ``requests.Response`` around a
real ``urllib3.HTTPResponse`` (preload_content=False,
enforce_content_length=True), so status handling, gzip transfer decoding and
truncated-body detection are the libraries' own code.

Server model = docs/serving-data.rst:
  * mode "plain":   files served as they are (flat layout without gzip,
                    sharded data);
  * mode "gzstatic": nginx ``gzip_static always; gunzip off;`` -- a request
                    for ``name`` is answered with ``name.gz`` and
                    ``Content-Encoding: gzip`` when that file exists;
  * mode "nginx":   gzstatic + the ``alias`` rule mapping the flat chunk URL
                    to per-axis sub-directories (deep layout).
  Range requests: 206 + Content-Range; first byte beyond the file: 416; a
  zero-length / inverted range (``bytes=N-(N-1)``) is answered as the run's
  seeded choice among 200-full, 416 and 206-empty (servers differ).
"""

import io
import re

import requests
import requests.adapters
import urllib3

from sim.core import HarnessError

_ORIG = {}
_SERVER = [None]
HOST = "sim.test"
_ALIAS = re.compile(r"^(.*)/([0-9]+-[0-9]+)_([0-9]+-[0-9]+)_([0-9]+-[0-9]+)$")

REASONS = {200: "OK", 206: "Partial Content", 403: "Forbidden",
           404: "Not Found", 416: "Range Not Satisfiable",
           429: "Too Many Requests", 500: "Internal Server Error",
           502: "Bad Gateway", 503: "Service Unavailable",
           504: "Gateway Timeout"}

FAULT_KINDS = ["status:403", "status:404", "status:429", "status:500",
               "status:502", "status:503", "status:504", "connection_error",
               "read_timeout", "drop_mid_body", "short_range", "long_range",
               "ignore_range", "empty_200"]


class SimServer:
    def __init__(self, fs, root, prefix="/ds/", mode="plain",
                 zero_range="416", log=None):
        self.fs = fs
        self.root = root.rstrip("/")
        self.prefix = prefix
        self.mode = mode
        self.zero_range = zero_range
        self.log = log if log is not None else fs.log
        self.n = 0                 # request ordinal within the fault window
        self.total = 0
        self.plan = {}
        self.fired = {}
        self.requests = []         # (ordinal, method, relpath, range)
        self.record = False

    def begin_window(self, plan=None, record=False):
        self.n = 0
        self.plan = dict(plan or {})
        self.record = record
        self.requests = []

    def end_window(self):
        self.plan = {}
        self.record = False

    def _fire(self, k):
        self.fired[k] = self.fired.get(k, 0) + 1

    # ---- static file resolution ---------------------------------------
    def _lookup(self, rel):
        """Return (bytes, content_encoding) or None."""
        path = self.root + "/" + rel
        if self.mode == "nginx":
            m = _ALIAS.match(path)
            if m:
                path = "/".join(m.groups())
        if self.mode in ("nginx", "gzstatic"):
            gz = self.fs.get(path + ".gz")
            if gz is not None:
                return gz, "gzip"
        data = self.fs.get(path)
        if data is not None:
            return data, None
        return None

    def handle(self, method, url_path, headers):
        """Pure server behaviour (no faults)."""
        if not url_path.startswith(self.prefix):
            return 404, {}, b""
        rel = url_path[len(self.prefix):]
        if ".." in rel.split("/") or rel.endswith("/") or rel == "":
            return 404, {}, b""
        hit = self._lookup(rel)
        if hit is None:
            return 404, {"Content-Type": "text/html"}, b"<h1>404</h1>"
        data, cenc = hit
        hdrs = {"Content-Type": "application/octet-stream",
                "Accept-Ranges": "bytes"}
        if cenc:
            hdrs["Content-Encoding"] = cenc
        rng = headers.get("Range")
        status = 200
        body = data
        if rng and method in ("GET", "HEAD"):
            m = re.match(r"^bytes=(\d+)-(\d*)$", rng.strip())
            if m:
                a = int(m.group(1))
                b = int(m.group(2)) if m.group(2) else len(data) - 1
                if b < a:
                    # zero-length / inverted range: server-defined
                    if self.zero_range == "416":
                        return (416, {"Content-Range":
                                      f"bytes */{len(data)}"}, b"")
                    if self.zero_range == "206":
                        status, body = 206, b""
                        hdrs["Content-Range"] = f"bytes */{len(data)}"
                    # "200": ignore the header, full body
                elif a >= len(data):
                    return 416, {"Content-Range": f"bytes */{len(data)}"}, b""
                else:
                    b = min(b, len(data) - 1)
                    status = 206
                    body = data[a:b + 1]
                    hdrs["Content-Range"] = f"bytes {a}-{b}/{len(data)}"
        return status, hdrs, body

    # ---- transport with faults ------------------------------------------
    def serve(self, method, url_path, headers):
        """Returns (status, headers, body, declared_length) or raises a
        requests exception (connection-level faults)."""
        k = self.n
        self.n += 1
        self.total += 1
        rng = headers.get("Range")
        self.log.add("HTTP", method, url_path, rng)
        if self.record:
            self.requests.append((k, method, url_path, rng))
        act = self.plan.get(k)
        status, hdrs, body = self.handle(method, url_path, headers)
        declared = len(body)
        if act is not None:
            kind = act[0]
            if kind.startswith("status:"):
                self._fire(kind)
                status = int(kind.split(":")[1])
                hdrs = {"Content-Type": "text/html"}
                body = b"<html>error page %d</html>" % status
                declared = len(body)
            elif kind == "connection_error":
                self._fire(kind)
                raise requests.exceptions.ConnectionError(
                    "simulated: connection reset by peer")
            elif kind == "read_timeout":
                self._fire(kind)
                raise requests.exceptions.ReadTimeout("simulated: read timed "
                                                      "out")
            elif kind == "drop_mid_body":
                if len(body) > 0 and method != "HEAD":
                    self._fire(kind)
                    body = body[:len(body) // 2]     # declared stays longer
            elif kind == "short_range":
                if status == 206 and len(body) > 1:
                    self._fire(kind)
                    cut = max(1, len(body) // 2)
                    body = body[:cut]
                    declared = len(body)
                    m = re.match(r"bytes (\d+)-(\d+)/(\d+)",
                                 hdrs["Content-Range"])
                    a = int(m.group(1))
                    hdrs["Content-Range"] = (f"bytes {a}-{a + cut - 1}/"
                                             f"{m.group(3)}")
            elif kind == "long_range":
                if status == 206:
                    hit = self._lookup(url_path[len(self.prefix):])
                    m = re.match(r"bytes (\d+)-(\d+)/(\d+)",
                                 hdrs["Content-Range"])
                    a, b = int(m.group(1)), int(m.group(2))
                    if hit and b + 1 < len(hit[0]):
                        self._fire(kind)
                        b2 = min(len(hit[0]) - 1, b + 1 + (b - a))
                        body = hit[0][a:b2 + 1]
                        declared = len(body)
                        hdrs["Content-Range"] = (f"bytes {a}-{b2}/"
                                                 f"{m.group(3)}")
            elif kind == "ignore_range":
                if status == 206:
                    hit = self._lookup(url_path[len(self.prefix):])
                    if hit and len(hit[0]) != len(body):
                        self._fire(kind)
                        status, body = 200, hit[0]
                        declared = len(body)
                        hdrs.pop("Content-Range", None)
            elif kind == "empty_200":
                # only for Range requests: an empty 200 to a plain GET is
                # indistinguishable from a genuinely empty file
                if rng and status in (200, 206) and len(body) > 0:
                    self._fire(kind)
                    status, body, declared = 200, b"", 0
                    hdrs.pop("Content-Range", None)
        if method == "HEAD":
            body = b""
        return status, hdrs, body, declared


class SimAdapter(requests.adapters.HTTPAdapter):
    def send(self, request, stream=False, timeout=None, verify=True,
             cert=None, proxies=None):
        server = _SERVER[0]
        if server is None:
            raise HarnessError("HTTP request while no SimServer is active: "
                               + str(request.url))
        parsed = urllib3.util.parse_url(request.url)
        if parsed.host != HOST:
            raise requests.exceptions.ConnectionError(
                f"simulated: cannot resolve {parsed.host}")
        status, hdrs, body, declared = server.serve(
            request.method, parsed.path or "/", request.headers)
        h = dict(hdrs)
        h["Content-Length"] = str(declared)
        raw = urllib3.HTTPResponse(
            body=io.BytesIO(body), headers=h, status=status,
            reason=REASONS.get(status, "Unknown"), preload_content=False,
            decode_content=False, enforce_content_length=True,
            request_method=request.method, version=11)
        return self.build_response(request, raw)


class SimSession(requests.Session):
    def __init__(self):
        super().__init__()
        self.trust_env = False
        adapter = SimAdapter()
        self.mount("http://", adapter)
        self.mount("https://", adapter)


def install():
    if _ORIG:
        return
    _ORIG["Session"] = requests.Session
    requests.Session = SimSession
    requests.sessions.Session = SimSession


class serving:
    """``with serving(server): ...``"""

    def __init__(self, server):
        self.server = server

    def __enter__(self):
        install()
        self.prev = _SERVER[0]
        _SERVER[0] = self.server
        return self.server

    def __exit__(self, *exc):
        _SERVER[0] = self.prev
        return False


def to_legacy(fs, root, minishard_bits_of_scale, every=1):
    """Rewrite <hex>.shard files under root/<key>/ into the legacy
    <hex>.index + <hex>.data pair (split at the end of the shard index).
    every=1: all of them; every=2: every second file in sorted order (a
    dataset with both layouts side by side)."""
    from sim.simfs import FileNode
    n = 0
    for path in sorted(fs.files):
        if not path.startswith(root + "/") or not path.endswith(".shard"):
            continue
        n += 1
        if n % every != 0:
            continue
        key = path[len(root) + 1:].split("/")[0]
        mb = minishard_bits_of_scale[key]
        data = bytes(fs.files[path].data)
        cut = 16 << mb
        stem = path[:-len(".shard")]
        del fs.files[path]
        fs.files[stem + ".index"] = FileNode(data[:cut])
        fs.files[stem + ".data"] = FileNode(data[cut:])
