"""Simulation kernel: seeds, event log, runner, traces, minimisation, evidence.

Everything a check needs that is not specific to one seam lives here.  The
contract with a check module is the :class:`Check` base class below.

Exit codes used by every check:
    0  property held on everything explored (KNOWN-FINDING lines allowed)
    1  at least one VIOLATION line printed (each verified by fresh-process replay)
    2  HARNESS-ERROR (simulator/model/oracle fault, determinism leak, worker
       death, timeout).  Never counts as "held".
"""

import argparse
import faulthandler
import hashlib
import json
import multiprocessing
import os
import random
import subprocess
import sys
import time
import traceback
from concurrent.futures import ProcessPoolExecutor, as_completed

VERIF_ROOT = os.path.dirname(os.path.dirname(os.path.abspath(__file__)))
REPO_ROOT = os.environ.get("VERIF_REPO_ROOT", "/repo")
DEFAULT_SEED = 20261003
MASK64 = (1 << 64) - 1
RUN_CPU_LIMIT_S = float(os.environ.get("VERIF_RUN_CPU_LIMIT", "90"))
RUN_WALL_LIMIT_S = 3600.0


class HarnessError(BaseException):
    """Fault of the simulator, a model or an oracle -- never of the repo.
    A BaseException so that no ``except Exception`` in the repository (or in
    ``sut()``) can absorb it."""


def bootstrap():
    """Make the *current working tree* of the repository importable.

    Must be called before anything imports neuroglancer_scripts.
    """
    os.environ["TQDM_DISABLE"] = "1"
    src = os.path.join(REPO_ROOT, "src")
    if sys.path[0] != src:
        sys.path.insert(0, src)
    import neuroglancer_scripts
    where = os.path.realpath(neuroglancer_scripts.__file__)
    if not where.startswith(os.path.realpath(src) + os.sep):
        raise HarnessError(
            f"neuroglancer_scripts imported from {where}, expected {src}")
    import logging
    logging.disable(logging.CRITICAL)
    import warnings
    warnings.simplefilter("ignore")


# --------------------------------------------------------------------------
# seeds

def splitmix64(x):
    x = (x + 0x9E3779B97F4A7C15) & MASK64
    z = x
    z = ((z ^ (z >> 30)) * 0xBF58476D1CE4E5B9) & MASK64
    z = ((z ^ (z >> 27)) * 0x94D049BB133111EB) & MASK64
    return z ^ (z >> 31)


def run_seed(base, pid, idx):
    h = int.from_bytes(hashlib.sha256(pid.encode()).digest()[:8], "big")
    return splitmix64(splitmix64(splitmix64(base & MASK64) ^ h) ^ idx)


def payload(seed, n):
    """Deterministic pseudo-random bytes (never all-zero when n > 0)."""
    if n <= 0:
        return b""
    out = bytearray()
    ctr = 0
    while len(out) < n:
        out += hashlib.sha256(b"%d:%d" % (seed, ctr)).digest()
        ctr += 1
    out = out[:n]
    if not any(out):
        out[0] = 1
    return bytes(out)


# --------------------------------------------------------------------------
# event log

class EventLog:
    """Append-only log hashed incrementally.  Never draws randomness, never
    reads a clock.  ``keep`` retains the entries (for replays / debugging)."""

    def __init__(self, keep=False):
        self._h = hashlib.sha256()
        self.n = 0
        self.keep = keep
        self.entries = []

    def add(self, *fields):
        self.n += 1
        self._h.update(repr(fields).encode("utf-8", "backslashreplace"))
        self._h.update(b"\n")
        if self.keep:
            self.entries.append(fields)

    def digest(self):
        return self._h.hexdigest()


def h8(b):
    return hashlib.sha256(bytes(b)).hexdigest()[:16]


# --------------------------------------------------------------------------
# results of one execution

class Violation:
    def __init__(self, oracle, message, key=None, narrow=None):
        self.oracle = oracle          # stable oracle id, e.g. "C12/fetch-latest"
        self.message = message
        self.key = key or oracle      # known-finding matching key
        # trace fields to override so that the replay holds exactly the
        # failing fault plan (used by enumerating checks)
        self.narrow = narrow

    def to_json(self):
        d = {"oracle": self.oracle, "message": self.message, "key": self.key}
        if self.narrow:
            d["narrow"] = self.narrow
        return d


class Result:
    """What Check.execute returns."""

    def __init__(self):
        self.violations = []      # list[Violation]
        self.digest = ""
        self.steps = 0            # logical steps (raw I/O calls + requests)
        self.faults = {}          # kind -> times actually fired
        self.probes = {}          # name -> count
        self.sig = ""             # reach signature (string)
        self.nontrivial = False
        self.info = {}            # free-form, goes into samples
        self.evals = 1            # executions performed inside this run
        self.sigs = None          # optional list of reach signatures

    def violate(self, oracle, message, key=None, narrow=None):
        self.violations.append(Violation(oracle, message, key, narrow))

    def probe(self, name, n=1):
        self.probes[name] = self.probes.get(name, 0) + n

    def fault(self, kind, n=1):
        self.faults[kind] = self.faults.get(kind, 0) + n


def sut(fn, *a, **kw):
    """Call into the system under test.  Returns ('ok', value) or
    ('exc', exception).  BaseExceptions that are not Exceptions (SimCrash,
    KeyboardInterrupt) propagate to the caller."""
    try:
        return "ok", fn(*a, **kw)
    except Exception as exc:  # noqa: BLE001 - the SUT may raise anything
        return "exc", exc


def excname(exc):
    return type(exc).__name__


# --------------------------------------------------------------------------
# known findings

def load_known_findings():
    path = os.path.join(VERIF_ROOT, "known_findings.json")
    if not os.path.exists(path):
        return []
    with open(path) as f:
        return json.load(f).get("findings", [])


# --------------------------------------------------------------------------
# the check base class

class Check:
    pid = "C00"
    level = "exploration"
    rule = ""
    assumptions = []
    components = {}               # real/stub table for evidence
    # (runs, batch size) per tier; budget in seconds is a soft cap on
    # submitting new batches, not a kill timer.
    tiers = {"quick": dict(runs=400, budget=60),
             "thorough": dict(runs=20000, budget=600)}
    shrink_budget_s = 25
    expected_probes = []          # probes that should be non-zero in thorough

    # ---- to implement -------------------------------------------------
    def gen(self, rng, tier, idx):
        """Return a JSON-serialisable trace (scenario + ops + faults)."""
        raise NotImplementedError

    def execute(self, trace):
        """Run one trace; return Result.  Must be a pure function of trace."""
        raise NotImplementedError

    def shrink(self, trace):
        """Yield strictly simpler candidate traces."""
        return iter(())

    def setup_worker(self):
        """Called once per worker process before any run."""

    def extra_evidence(self, agg):
        return {}


def _real_tmp():
    for d in ("/dev/shm", "/tmp"):
        if os.path.isdir(d) and os.access(d, os.W_OK):
            return d
    return None


def run_trace(check, trace):
    """Single entry point for executing a trace: resets per-execution
    simulator state (name streams) so that execution is a pure function of
    the trace."""
    mod = sys.modules.get("sim.simproc")
    if mod is not None:
        mod.NAMES.n = 0
    mod = sys.modules.get("sim.simfs")
    if mod is not None:
        mod._FDS.clear()
        mod._FD_NEXT[0] = mod._FD_BASE
    import random
    random.seed(0x5EED)      # the module-level generator, if the SUT uses it
    saved = sys.stdout
    sys.stdout = _NullOut()      # the SUT prints; only the harness reports
    try:
        return check.execute(json.loads(json.dumps(trace)))
    except HarnessError:
        raise
    except Exception as exc:  # noqa: BLE001
        # An exception that escapes execute() is a harness fault -- unless it
        # was raised by (or below) repository code while the harness was
        # performing a fault-free *precondition* operation (building the
        # stored state, computing an expectation through a local accessor).
        # That is the repository failing an operation nobody injected a
        # fault into, and is reported against the property, not as exit 2.
        frames = traceback.extract_tb(exc.__traceback__)
        src = os.path.realpath(os.path.join(REPO_ROOT, "src")) + os.sep
        through_repo = [f for f in frames
                        if os.path.realpath(f.filename).startswith(src)]
        if not through_repo:
            raise
        where = through_repo[-1]
        res = Result()
        name = type(exc).__name__
        res.violate(
            f"{check.pid}/precondition-op-fails",
            f"a fault-free operation performed to set the scenario up raised "
            f"{name}: {exc!s:.200} at "
            f"{where.filename[len(src):]}:{where.lineno}",
            key=f"{check.pid}/precondition-op-fails/{name}")
        res.digest = hashlib.sha256(
            f"precondition:{name}:{where.filename[len(src):]}".encode()
        ).hexdigest()
        res.sig = "precondition-op-fails"
        return res
    finally:
        sys.stdout = saved


class _NullOut:
    def write(self, s):
        return len(s)

    def flush(self):
        pass

    def isatty(self):
        return False


# --------------------------------------------------------------------------
# worker side

_CHECK = None


def prepare(check):
    """Bring the process to the state every run is forked from: seams
    installed and one fixed warm-up execution done, so that lazy imports and
    plugin registries (PIL, imageio, nibabel, ...) are loaded once and not
    again in every forked run.  The same preparation precedes replays and
    minimisation, so all executions start from the same state."""
    if getattr(check, "_prepared", False):
        return
    check.setup_worker()
    import signal

    class _WarmupTimeout(BaseException):
        pass

    def _stop(signum, frame):
        raise _WarmupTimeout()
    old_handler = signal.signal(signal.SIGVTALRM, _stop)
    try:
        for i in range(3):
            # bounded in CPU time: a system under test that loops forever
            # must not hang the worker before the first (forked, bounded) run
            signal.setitimer(signal.ITIMER_VIRTUAL, 30.0)
            try:
                run_trace(check, check.gen(random.Random(777 + i), "quick",
                                           i))
            except KeyboardInterrupt:
                raise
            except BaseException:  # noqa: BLE001 - warm-up is best effort
                pass
            finally:
                signal.setitimer(signal.ITIMER_VIRTUAL, 0)
    finally:
        signal.signal(signal.SIGVTALRM, old_handler)
    check._prepared = True


_STOP = None


def _worker_init(check, stop_event=None):
    global _CHECK, _STOP
    _CHECK = check
    _STOP = stop_event
    faulthandler.enable()
    sys.stdout = _NullOut()      # the SUT prints; only the parent reports
    prepare(check)


def _digest_of(check, trace):
    res = check.execute(json.loads(json.dumps(trace)))
    return res


def _slim(res):
    """Result without unpicklable / bulky members."""
    res.info = json.loads(json.dumps(res.info, default=str))
    return res


def _in_fork(fn):
    """Run fn() in a forked child and return its (picklable) result.

    One run = one pristine copy of the worker: process-global state that the
    system under test mutates (class-level caches, module globals, default
    arguments) cannot leak from one run into the next, so a run stays a pure
    function of its seed whatever the repository does with global state."""
    import pickle
    import signal
    import tempfile
    r, w = os.pipe()
    dump = tempfile.NamedTemporaryFile(prefix="verif-stack-", delete=False,
                                       dir=_real_tmp())
    dump.close()
    pid = os.fork()
    if pid == 0:
        code = 0
        try:
            os.close(r)
            # lets the parent ask "where are you?" before killing a run that
            # exceeded its CPU budget
            _dumpf = open(dump.name, "w")
            faulthandler.register(signal.SIGUSR1, file=_dumpf,
                                  all_threads=False)
            try:
                data = pickle.dumps(("ok", fn()))
            except KeyboardInterrupt:
                raise
            except BaseException:  # noqa: BLE001
                data = pickle.dumps(("err", traceback.format_exc()))
            with os.fdopen(w, "wb") as f:
                f.write(data)
        except BaseException:  # noqa: BLE001
            code = 3
        finally:
            os._exit(code)
    os.close(w)
    # Bounded wait: a run that burns more than RUN_CPU_LIMIT_S of CPU time is
    # stuck in a loop of the system under test (normal runs need milliseconds
    # to a few seconds); CPU time, not wall time, so machine load cannot
    # trigger it.  A run that sits idle for RUN_WALL_LIMIT_S is a harness
    # problem (deadlock) and is reported as such.
    import select
    chunks = []
    t0 = time.monotonic()
    verdict = None
    ticks = os.sysconf("SC_CLK_TCK")
    while True:
        ready, _, _ = select.select([r], [], [], 2.0)
        if ready:
            b = os.read(r, 1 << 20)
            if not b:
                break
            chunks.append(b)
            continue
        try:
            with open(f"/proc/{pid}/stat") as f:
                fields = f.read().rsplit(")", 1)[1].split()
            cpu = (int(fields[11]) + int(fields[12])) / ticks
        except (OSError, IndexError, ValueError):
            cpu = 0.0
        if cpu > RUN_CPU_LIMIT_S:
            # whose loop is it?  Ask the child for its stack: the innermost
            # frame that belongs to the repository or to /verif decides
            who, where = "unknown", ""
            try:
                os.kill(pid, signal.SIGUSR1)
                time.sleep(1.0)
                src = os.path.realpath(os.path.join(REPO_ROOT, "src"))
                with open(dump.name) as f:
                    for line in f:
                        if 'File "' not in line:
                            continue
                        fn = os.path.realpath(line.split('File "')[1]
                                              .split('"')[0])
                        if fn.startswith(src + os.sep):
                            who, where = "repo", line.strip()
                            break
                        if fn.startswith(VERIF_ROOT + os.sep):
                            who, where = "harness", line.strip()
                            break
            except OSError:
                pass
            msg = (f"run consumed more than {RUN_CPU_LIMIT_S:.0f} s of CPU "
                   f"time; innermost frame: {where or 'unknown'}")
            verdict = ("timeout", msg) if who == "repo" else (
                "err", "CPU limit hit inside the harness, not inside the "
                "system under test: " + msg)
            break
        if time.monotonic() - t0 > RUN_WALL_LIMIT_S:
            verdict = ("err", f"run idle for {RUN_WALL_LIMIT_S:.0f} s "
                       "(harness deadlock?)")
            break
    os.close(r)
    if verdict is not None:
        try:
            os.kill(pid, 9)
        except OSError:
            pass
        os.waitpid(pid, 0)
        try:
            os.unlink(dump.name)
        except OSError:
            pass
        return verdict
    _pid, status = os.waitpid(pid, 0)
    try:
        os.unlink(dump.name)
    except OSError:
        pass
    data = b"".join(chunks)
    if not data:
        return ("err", f"forked run died (wait status {status})")
    return pickle.loads(data)


def _one_run(check, base_seed, tier, idx, recheck_every):
    seed = run_seed(base_seed, check.pid, idx)
    rec = {"idx": idx, "seed": seed}
    rng = random.Random(seed)
    trace = check.gen(rng, tier, idx)
    trace = json.loads(json.dumps(trace))   # enforce serialisable
    res = run_trace(check, trace)
    rec.update(digest=res.digest, steps=res.steps, faults=res.faults,
               probes=res.probes, sig=res.sig,
               nontrivial=res.nontrivial, evals=res.evals,
               sigs=res.sigs)
    if res.violations:
        rec["violations"] = [v.to_json() for v in res.violations]
        rec["trace"] = trace
    elif idx % 97 == 0 or idx < 2 or (recheck_every
                                      and idx % recheck_every == 0):
        rec["trace"] = trace
        rec["info"] = res.info
    return rec


def _run_batch(args):
    base_seed, tier, indices, recheck_every = args
    check = _CHECK
    out = []
    faulthandler.dump_traceback_later(600, exit=True)
    try:
        for idx in indices:
            if _STOP is not None and _STOP.is_set():
                break               # the parent saw a non-terminating run
            seed = run_seed(base_seed, check.pid, idx)
            st, rec = _in_fork(lambda: _one_run(check, base_seed, tier, idx,
                                                recheck_every))
            if st == "timeout":
                # the system under test did not terminate: a violation of
                # every property (no operation may hang), reported with the
                # generated trace; not minimised (each attempt would hang)
                trace = json.loads(json.dumps(check.gen(
                    random.Random(seed), tier, idx)))
                out.append({
                    "idx": idx, "seed": seed, "digest": "timeout",
                    "steps": 0, "faults": {}, "probes": {}, "sig": "timeout",
                    "nontrivial": False, "evals": 1, "sigs": None,
                    "trace": trace,
                    "violations": [{
                        "oracle": f"{check.pid}/does-not-terminate",
                        "message": f"run idx={idx}: {rec}; the operation "
                        "under test never returned",
                        "key": f"{check.pid}/does-not-terminate"}]})
                continue
            if st != "ok":
                out.append({"idx": idx, "seed": seed, "harness_error": rec})
                continue
            if recheck_every and idx % recheck_every == 0:
                # determinism: the same trace again, in another pristine fork
                st2, rec2 = _in_fork(lambda: run_trace(
                    check, rec["trace"]).digest)
                if st2 != "ok" or rec2 != rec["digest"]:
                    out.append({"idx": idx, "seed": seed, "harness_error":
                                f"non-deterministic execution idx={idx} "
                                f"{rec['digest']} != {rec2}"})
                    continue
                rec["rechecked"] = True
                if "violations" not in rec and not (idx % 97 == 0
                                                    or idx < 2):
                    rec.pop("trace", None)
            out.append(rec)
    finally:
        faulthandler.cancel_dump_traceback_later()
    return out


# --------------------------------------------------------------------------
# minimisation

def minimise(check, trace, key, budget_s, max_exec=4000):
    """Greedy shrinking: accept a candidate iff the same violation key
    (oracle id + discriminating facts) fails."""
    deadline = time.monotonic() + budget_s
    cur = trace
    execs = 0
    progress = True
    while progress and time.monotonic() < deadline and execs < max_exec:
        progress = False
        for cand in check.shrink(cur):
            if time.monotonic() > deadline or execs >= max_exec:
                break
            execs += 1
            st, res = _in_fork(lambda: _slim(run_trace(check, cand)))
            if st != "ok":
                continue            # invalid candidate, skip
            if any(v.key == key for v in res.violations):
                cur = cand
                progress = True
                break
    return cur, execs


def ddmin_candidates(seq):
    """Candidate sub-sequences for a list: halves, then single removals."""
    n = len(seq)
    if n == 0:
        return
    chunk = n // 2
    while chunk >= 1:
        for start in range(0, n, chunk):
            cand = seq[:start] + seq[start + chunk:]
            if len(cand) < n:
                yield cand
        if chunk == 1:
            break
        chunk //= 2


# --------------------------------------------------------------------------
# parent side

def _replay_path(pid, seed, idx):
    d = os.path.join(VERIF_ROOT, "replays")
    os.makedirs(d, exist_ok=True)
    return os.path.join(d, f"{pid}-{seed}-{idx}.json")


def _verify_replay_fresh(script, path):
    """Re-execute a replay file in a fresh interpreter under another hash
    seed.  Returns (reproduced, output)."""
    env = dict(os.environ)
    env["PYTHONHASHSEED"] = "7"
    env["VERIF_REPLAY_QUIET"] = "1"
    p = subprocess.run([sys.executable, script, "--replay", path],
                       capture_output=True, text=True, env=env, timeout=600)
    return p.returncode == 1 and "REPRODUCED" in p.stdout, p.stdout + p.stderr


def replay_main(check, path):
    with open(path) as f:
        doc = json.load(f)
    prepare(check)
    st, res = _in_fork(lambda: _slim(run_trace(check, doc["trace"])))
    if st == "timeout":
        if doc["violation"]["key"].endswith("/does-not-terminate"):
            print(f"REPRODUCED key={doc['violation']['key']} ({res})")
            if not os.environ.get("VERIF_REPLAY_QUIET"):
                print(f"VIOLATION property={check.pid} replay={path}")
            return 1
        raise HarnessError("replay did not terminate: " + str(res))
    if st != "ok":
        raise HarnessError("replay execution failed:\n" + str(res))
    want = doc["violation"]["key"]
    got = [v for v in res.violations if v.key == want]
    if got and (not doc.get("digest") or res.digest == doc["digest"]):
        print(f"REPRODUCED key={want} digest={res.digest}")
        print(f"  {got[0].message}")
        if not os.environ.get("VERIF_REPLAY_QUIET"):
            print(f"VIOLATION property={check.pid} replay={path}")
        return 1
    if got:
        print(f"oracle {want} failed again but digest differs: "
              f"{res.digest} != {doc.get('digest')}")
        return 2
    print(f"NOT REPRODUCED oracle={want}; violations now: "
          f"{[v.to_json() for v in res.violations]}")
    return 0


def main(check, script_file, argv=None):
    ap = argparse.ArgumentParser()
    ap.add_argument("--tier", default=os.environ.get("VERIF_TIER", "quick"),
                    choices=("quick", "thorough"))
    ap.add_argument("--replay")
    ap.add_argument("--runs", type=int)
    ap.add_argument("--budget", type=float)
    ap.add_argument("--workers", type=int,
                    default=int(os.environ.get("VERIF_WORKERS", "0")) or None)
    ap.add_argument("--seed", type=int)
    ap.add_argument("--digests", help="write idx->digest map (self-test)")
    ap.add_argument("--no-evidence", action="store_true")
    ap.add_argument("--one", type=int, help="run a single index, verbose")
    args = ap.parse_args(argv)

    try:
        bootstrap()
        if args.replay:
            return replay_main(check, args.replay)
        return _explore(check, script_file, args)
    except HarnessError:
        print("HARNESS-ERROR", file=sys.stderr)
        traceback.print_exc()
        return 2
    except KeyboardInterrupt:
        raise
    except BaseException:  # noqa: BLE001
        print("HARNESS-ERROR (unclassified)", file=sys.stderr)
        traceback.print_exc()
        return 2


def _explore(check, script_file, args):
    tier = args.tier
    cfg = dict(check.tiers[tier])
    if args.runs:
        cfg["runs"] = args.runs
    if args.budget:
        cfg["budget"] = args.budget
    base_seed = args.seed if args.seed is not None else int(
        os.environ.get("VERIF_SEED", DEFAULT_SEED))
    workers = args.workers or min(16, os.cpu_count() or 1)
    t0 = time.monotonic()
    print(f"[{check.pid}] tier={tier} seed={base_seed} runs<={cfg['runs']} "
          f"budget={cfg['budget']}s workers={workers} repo={REPO_ROOT}")
    sys.stdout.flush()

    if args.one is not None:
        prepare(check)
        seed = run_seed(base_seed, check.pid, args.one)
        trace = check.gen(random.Random(seed), tier, args.one)
        print(json.dumps(trace, indent=1)[:6000])
        res = run_trace(check, trace)
        print("digest", res.digest, "steps", res.steps, "sig", res.sig)
        print("faults", res.faults, "probes", res.probes)
        for v in res.violations:
            print("VIOL", v.to_json())
        return 1 if res.violations else 0

    runs = cfg["runs"]
    batch = max(1, min(cfg.get("batch", 25), runs // (workers * 4) or 1))
    batches = [list(range(i, min(i + batch, runs)))
               for i in range(0, runs, batch)]
    recheck_every = cfg.get("recheck_every", 50)

    agg = dict(evals=0, steps=0, faults={}, probes={}, sigs={}, digests={},
               samples=[], rechecked=0, harness=[], viol=[], skipped=0)
    ctx = multiprocessing.get_context("fork")
    deadline = t0 + cfg["budget"]
    stop_event = ctx.Event()
    with ProcessPoolExecutor(max_workers=workers, mp_context=ctx,
                             initializer=_worker_init,
                             initargs=(check, stop_event)) as ex:
        pending = {}
        it = iter(batches)

        def submit_more():
            while len(pending) < workers * 2:
                if time.monotonic() > deadline or agg.get("stop"):
                    return
                b = next(it, None)
                if b is None:
                    return
                fut = ex.submit(_run_batch, (base_seed, tier, b,
                                             recheck_every))
                pending[fut] = b

        submit_more()
        while pending:
            done = next(as_completed(list(pending)))
            pending.pop(done)
            if done.cancelled():
                agg["skipped"] += 1
                continue
            try:
                recs = done.result()
            except Exception as exc:  # noqa: BLE001 - dead worker etc.
                raise HarnessError(f"worker failed: {exc!r}") from exc
            for rec in recs:
                _absorb(agg, rec)
            if agg.get("stop") and not stop_event.is_set():
                stop_event.set()
                for fut in list(pending):
                    fut.cancel()
            submit_more()
        agg["skipped"] += sum(len(b) for b in it)

    wall_explore = time.monotonic() - t0
    if agg["harness"]:
        print("HARNESS-ERROR in worker:", file=sys.stderr)
        print(agg["harness"][0], file=sys.stderr)
        return 2

    if args.digests:
        with open(args.digests, "w") as f:
            json.dump({str(k): agg["digests"][k]
                       for k in sorted(agg["digests"])}, f)

    # ---- violations: dedupe by key, minimise, verify, report -----------
    known = [k for k in load_known_findings()
             if k.get("property") == check.pid and k.get("status") == "known"]
    known_hit = {}
    by_key = {}
    for rec in sorted(agg["viol"], key=lambda r: r["idx"]):
        for v in rec["violations"]:
            kf = next((k for k in known if k["key"] == v["key"]), None)
            if kf is not None:
                known_hit.setdefault(kf["key"], [kf, 0])[1] += 1
                continue
            by_key.setdefault(v["key"], (rec, v))
    for key in sorted(known_hit):
        kf, n = known_hit[key]
        print(f"KNOWN-FINDING: property={check.pid} {kf['what']} "
              f"[key={key} hits={n}]")

    reported = 0
    if by_key:
        prepare(check)
    for key in sorted(by_key)[:6]:
        rec, v = by_key[key]
        start = dict(rec["trace"])
        if v.get("narrow"):
            start.update(v["narrow"])
        if key.endswith("/does-not-terminate"):
            path = _replay_path(check.pid, rec["seed"], rec["idx"])
            with open(path, "w") as f:
                json.dump({"property": check.pid, "seed": rec["seed"],
                           "idx": rec["idx"], "base_seed": base_seed,
                           "tier": tier, "violation": v, "digest": "",
                           "shrink_execs": 0, "trace": start}, f, indent=1,
                          sort_keys=True)
            ok, out = _verify_replay_fresh(script_file, path)
            if not ok:
                print(out, file=sys.stderr)
                raise HarnessError(f"replay {path} (non-termination) did "
                                   "not reproduce")
            print(f"  oracle={v['oracle']} key={v['key']}\n  {v['message']}")
            print(f"VIOLATION property={check.pid} replay={path}")
            reported += 1
            continue
        small, execs = minimise(check, start, v["key"],
                                check.shrink_budget_s)
        st, res = _in_fork(lambda: _slim(run_trace(check, small)))
        if st != "ok":
            raise HarnessError("minimised trace failed to execute:\n"
                               + str(res))
        vv = next((x for x in res.violations if x.key == v["key"]), None)
        if vv is None:
            raise HarnessError(f"violation {v} did not reproduce in-process "
                               f"(idx={rec['idx']})")
        path = _replay_path(check.pid, rec["seed"], rec["idx"])
        with open(path, "w") as f:
            json.dump({"property": check.pid, "seed": rec["seed"],
                       "idx": rec["idx"], "base_seed": base_seed,
                       "tier": tier, "violation": vv.to_json(),
                       "digest": res.digest, "shrink_execs": execs,
                       "trace": small}, f, indent=1, sort_keys=True)
        ok, out = _verify_replay_fresh(script_file, path)
        if not ok:
            print(out, file=sys.stderr)
            raise HarnessError(f"replay {path} did not reproduce in a fresh "
                               "interpreter: determinism leak")
        print(f"  oracle={vv.oracle} key={vv.key}\n  {vv.message}")
        print(f"VIOLATION property={check.pid} replay={path}")
        reported += 1
    if len(by_key) > 6:
        print(f"  ({len(by_key) - 6} further distinct violation keys not "
              "minimised)")

    wall = time.monotonic() - t0
    if not args.no_evidence:
        _write_evidence(check, tier, base_seed, agg, wall, wall_explore,
                        len(by_key), known_hit, workers)
    zero = [p for p in check.expected_probes
            if agg["probes"].get(p, 0) == 0]
    if zero and tier == "thorough":
        print(f"[{check.pid}] WARNING probes never hit: {zero}")
    rate = agg["evals"] / wall_explore * 3600 if wall_explore else 0
    print(f"[{check.pid}] runs={agg['evals']} skipped={agg['skipped']} "
          f"distinct_sigs={len(agg['sigs'])} steps={agg['steps']} "
          f"rechecked={agg['rechecked']} violations={len(by_key)} "
          f"known={len(known_hit)} wall={wall:.1f}s ({rate:.0f} runs/h)")
    return 1 if reported else 0


def _absorb(agg, rec):
    if "harness_error" in rec:
        agg["harness"].append(f"idx={rec['idx']} seed={rec['seed']}\n"
                              + rec["harness_error"])
        return
    agg["evals"] += 1
    agg["execs"] = agg.get("execs", 0) + rec.get("evals", 1)
    agg["steps"] += rec["steps"]
    agg["digests"][rec["idx"]] = rec["digest"]
    for k, n in rec["faults"].items():
        agg["faults"][k] = agg["faults"].get(k, 0) + n
    for k, n in rec["probes"].items():
        agg["probes"][k] = agg["probes"].get(k, 0) + n
    if rec.get("sigs"):
        for sg in rec["sigs"]:
            agg["sigs"][sg] = agg["sigs"].get(sg, 0) + 1
    elif rec["nontrivial"]:
        agg["sigs"][rec["sig"]] = agg["sigs"].get(rec["sig"], 0) + 1
    if rec.get("rechecked"):
        agg["rechecked"] += 1
    if "violations" in rec:
        agg["viol"].append(rec)
        if any(v["key"].endswith("/does-not-terminate")
               for v in rec["violations"]):
            agg["stop"] = True      # every further hang costs the CPU limit
    elif "trace" in rec and len(agg["samples"]) < 3:
        agg["samples"].append({"idx": rec["idx"], "seed": rec["seed"],
                               "trace": _clip(rec["trace"]),
                               "outcome": rec.get("info", {}),
                               "digest": rec["digest"]})


def _clip(obj, depth=0):
    """Keep samples readable: clip long lists/strings."""
    if isinstance(obj, dict):
        return {k: _clip(v, depth + 1) for k, v in obj.items()}
    if isinstance(obj, list):
        if len(obj) > 24:
            return [_clip(v, depth + 1) for v in obj[:24]] + [
                f"... {len(obj) - 24} more"]
        return [_clip(v, depth + 1) for v in obj]
    if isinstance(obj, str) and len(obj) > 300:
        return obj[:300] + "..."
    return obj


def _write_evidence(check, tier, base_seed, agg, wall, wall_explore,
                    n_viol, known_hit, workers):
    samples = agg["samples"] or [{"note": "no sample retained"}]
    cov = {
        "evaluations": agg.get("execs", agg["evals"]),
        "scenarios": agg["evals"],
        "distinct_nontrivial": len(agg["sigs"]),
        "rule": check.rule,
        "samples": samples,
        "exhaustive": False,
        "runs_per_hour": round(agg["evals"] / wall_explore * 3600)
        if wall_explore else 0,
        "logical_steps": agg["steps"],
        "simulated_time_note": "the code has no timers or clocks; simulated "
        "time is reported as logical steps (raw I/O calls + HTTP requests)",
        "runs_not_started_before_budget": agg["skipped"],
        "seeds": {"base": base_seed,
                  "derivation": "run_seed=splitmix64^3(base, sha256(pid), idx)",
                  "indices": [0, agg["evals"] + agg["skipped"]]},
        "faults_fired": dict(sorted(agg["faults"].items())),
        "probes": dict(sorted(agg["probes"].items())),
        "probes_expected_but_zero": ([p for p in check.expected_probes
                                      if agg["probes"].get(p, 0) == 0]
                                     if tier == "thorough" else
                                     "only evaluated in the thorough tier"),
        "determinism_rechecks": agg["rechecked"],
        "top_signatures": sorted(agg["sigs"].items(),
                                 key=lambda kv: (-kv[1], kv[0]))[:12],
        "components": check.components,
        "workers": workers,
        "known_findings_hit": {k: v[1] for k, v in sorted(known_hit.items())},
    }
    cov.update(check.extra_evidence(agg))
    doc = {
        "property_id": check.pid,
        "tier": tier,
        "seed": base_seed,
        "level": check.level,
        "coverage": cov,
        "assumptions": list(check.assumptions),
        "wall_s": round(wall, 2),
        "violations": n_viol,
    }
    d = os.path.join(VERIF_ROOT, "evidence")
    os.makedirs(d, exist_ok=True)
    tmp = os.path.join(d, f".{check.pid}.json.tmp")
    with open(tmp, "w") as f:
        json.dump(doc, f, indent=1, sort_keys=True, default=str)
    os.replace(tmp, os.path.join(d, f"{check.pid}.json"))
