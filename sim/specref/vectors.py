"""Hand-made vectors for the independent oracles (run by sim/selftest.py).

Values were computed by hand from the specification text, not by running the
repository or the reference itself."""
import gzip
import struct
import zlib

from sim.specref import sharded as S


def v_morton():
    # grid 4x2x1 -> bits (2,1,0); order of output bits: x0 y0 x1
    assert S.morton([4, 2, 1], (3, 1, 0)) == 0b111
    assert S.morton([4, 2, 1], (2, 0, 0)) == 0b100
    assert S.morton([4, 2, 1], (1, 1, 0)) == 0b011
    # grid 3x3x3 -> bits (2,2,2): x0 y0 z0 x1 y1 z1
    assert S.morton([3, 3, 3], (1, 2, 3)) == 0b110101
    # single-chunk axes drop out completely
    assert S.morton([1, 1, 1], (0, 0, 0)) == 0
    assert S.morton([1, 5, 1], (0, 4, 0)) == 4
    # 5 needs 3 bits, 2 needs 1: x0 y0 x1 x2
    assert S.morton([5, 2, 1], (4, 1, 0)) == 0b1010


def v_route():
    assert S.route(53, 1, 2, 3) == (6, 2)
    assert S.route(53, 0, 0, 0) == (0, 0)
    assert S.route(0xFFFFFFFFFFFFFFFF, 0, 64, 0) == (0, 0xFFFFFFFFFFFFFFFF)
    assert S.route(0xFFFFFFFFFFFFFFFF, 70, 3, 3) == (0, 0)
    assert S.route(5, 0, 70, 2) == (0, 5)
    assert S.shard_filename(6, 3) == "6.shard"
    assert S.shard_filename(6, 9) == "006.shard"
    assert S.shard_filename(0, 0) == "0.shard"
    assert S.shard_filename(0xAB, 8) == "ab.shard"
    assert S.shard_filename(0xAB, 70) == "0" * 16 + "ab.shard"


def _file(index_entries, body):
    idx = b"".join(struct.pack("<QQ", a, b) for a, b in index_entries)
    return idx + body


def v_shard_parse():
    mini = struct.pack("<3Q", 4, 0, 5)             # id 4 at offset 0, 5 bytes
    data = _file([(5, 29), (29, 29)], b"hello" + mini)
    sf = S.ShardFile(data, 1, "raw", set())
    assert sf.minishard(0) == [(4, 32, 5)], sf.minishard(0)
    assert sf.minishard(1) == []
    sf.check_no_overlap()
    # two chunks, delta-coded ids and offsets (second follows the first)
    mini = struct.pack("<6Q", 4, 3, 0, 0, 5, 2)    # ids 4,7 sizes 5,2
    data = _file([(7, 55), (55, 55)], b"helloXY" + mini)
    sf = S.ShardFile(data, 1, "raw", set())
    assert sf.minishard(0) == [(4, 32, 5), (7, 37, 2)], sf.minishard(0)
    sf.check_no_overlap()
    # gzip-encoded minishard index (RFC 1952) is accepted silently ...
    notes = set()
    gz = gzip.compress(struct.pack("<3Q", 4, 0, 5), mtime=0)
    data = _file([(5, 5 + len(gz)), (0, 0)], b"hello" + gz)
    sf = S.ShardFile(data, 1, "gzip", notes)
    assert sf.minishard(0) == [(4, 32, 5)] and not notes
    # ... a zlib stream is decoded but noted as a deviation
    zl = zlib.compress(struct.pack("<3Q", 4, 0, 5))
    data = _file([(5, 5 + len(zl)), (0, 0)], b"hello" + zl)
    sf = S.ShardFile(data, 1, "gzip", notes)
    assert sf.minishard(0) == [(4, 32, 5)] and notes == {"gzip-is-zlib"}


def _raises(code, fn):
    try:
        fn()
    except S.SpecViolation as e:
        assert e.code == code, (e.code, code)
        return
    raise AssertionError(f"expected SpecViolation {code}")


def v_shard_reject():
    # repeated id
    mini = struct.pack("<6Q", 4, 0, 0, 0, 5, 2)
    data = _file([(7, 55), (55, 55)], b"helloXY" + mini)
    _raises("ids-increasing",
            lambda: S.ShardFile(data, 1, "raw", set()).minishard(0))
    # chunk range beyond the file
    mini = struct.pack("<3Q", 4, 0, 500)
    data = _file([(5, 29), (29, 29)], b"hello" + mini)
    _raises("range-inside",
            lambda: S.ShardFile(data, 1, "raw", set()).minishard(0))
    # chunk data overlapping the minishard index
    mini = struct.pack("<3Q", 4, 0, 9)
    data = _file([(5, 29), (29, 29)], b"hello" + mini)

    def f():
        sf = S.ShardFile(data, 1, "raw", set())
        sf.minishard(0)
        sf.check_no_overlap()
    _raises("overlap", f)
    # slot beyond file, inverted slot, short file
    _raises("shard-index", lambda: S.ShardFile(
        _file([(0, 99), (0, 0)], b"x"), 1, "raw", set()))
    _raises("shard-index", lambda: S.ShardFile(
        _file([(9, 2), (0, 0)], b"x" * 20), 1, "raw", set()))
    _raises("shard-index", lambda: S.ShardFile(b"\0" * 31, 1, "raw", set()))


def v_check_scale():
    """End to end on a hand-made scale: chunk (1,0,0) of grid 2x1x1 has id 1;
    with minishard_bits=1 it belongs to minishard 1 of shard 0."""
    mini = struct.pack("<3Q", 1, 0, 3)
    good = _file([(3, 3), (3, 27)], b"abc" + mini)
    spec = dict(minishard_bits=1, shard_bits=0, preshift_bits=0,
                minishard_index_encoding="raw", data_encoding="raw")
    files = {"0.shard": good}
    pr, notes = S.check_scale(files.get, lambda: list(files), [2, 1, 1], spec,
                              {(1, 0, 0): b"abc"}, [(0, 0, 0)])
    assert pr == [] and not notes, pr
    # the same index entry placed in slot 0 instead of slot 1 must be caught
    bad = _file([(3, 27), (27, 27)], b"abc" + mini)
    files = {"0.shard": bad}
    pr, notes = S.check_scale(files.get, lambda: list(files), [2, 1, 1], spec,
                              {(1, 0, 0): b"abc"}, [])
    assert any(c == "minishard-slot" for c, _ in pr), pr
    # wrong bytes
    files = {"0.shard": _file([(3, 3), (3, 27)], b"abX" + mini)}
    pr, _ = S.check_scale(files.get, lambda: list(files), [2, 1, 1], spec,
                          {(1, 0, 0): b"abc"}, [])
    assert any(c == "bytes" for c, _ in pr), pr
    # missing file / un-padded name
    files = {"00.shard": good}
    pr, _ = S.check_scale(files.get, lambda: list(files), [2, 1, 1], spec,
                          {(1, 0, 0): b"abc"}, [])
    assert any(c == "file-name" for c, _ in pr), pr


ALL = [("morton", v_morton), ("route", v_route),
       ("shard_parse", v_shard_parse), ("shard_reject", v_shard_reject),
       ("check_scale", v_check_scale)]
