"""Independent reader for the Neuroglancer ``neuroglancer_uint64_sharded_v1``
format, written from the specification text (sharded.md) with Python
integers, ``struct`` and ``zlib`` only.  Shares no code with the repository.

Specification summary used here
-------------------------------
* chunk identifier = compressed Morton code of the chunk's grid position:
  dimension d contributes ceil(log2(grid_shape[d])) bits; bits are
  interleaved x,y,z from the least significant bit, skipping dimensions
  whose bits are exhausted.
* hashed = hash(id >> preshift_bits)              (identity hash here)
  minishard number = hashed & (2**minishard_bits - 1)
  shard number     = (hashed >> minishard_bits) & (2**shard_bits - 1)
* shard file name = shard number as lowercase base-16, zero padded to
  ceil(shard_bits / 4) digits, + ".shard"
* shard file = shard index (2**minishard_bits entries of two uint64le:
  inclusive start / exclusive end offset of that minishard's index, relative
  to the END of the shard index) followed by data.
* minishard index (after decoding per minishard_index_encoding) = uint64le
  array of shape [3, n] in C order: row 0 delta-coded chunk ids, row 1
  start offsets (relative to the end of the shard index; delta coded relative
  to the end of the previous chunk), row 2 sizes in bytes.
* "gzip" encodings are gzip (RFC 1952) streams.
"""

import struct
import zlib

U64 = (1 << 64) - 1


class SpecViolation(Exception):
    def __init__(self, code, msg):
        super().__init__(msg)
        self.code = code


def nbits(g):
    # ceil(log2(g)) with integers
    return (g - 1).bit_length() if g > 1 else 0


def morton(grid_shape, pos):
    bits = [nbits(g) for g in grid_shape]
    out = 0
    j = 0
    for i in range(max(bits) if bits else 0):
        for d in range(3):
            if i < bits[d]:
                out |= ((pos[d] >> i) & 1) << j
                j += 1
    return out


def route(chunk_id, preshift, minishard_bits, shard_bits):
    hashed = (chunk_id & U64) >> preshift
    minishard = hashed & ((1 << minishard_bits) - 1)
    shard = (hashed >> minishard_bits) & ((1 << shard_bits) - 1)
    return shard, minishard


def shard_filename(shard, shard_bits):
    digits = -(-shard_bits // 4)
    return format(shard, "x").rjust(digits, "0") + ".shard"


def _decode(data, encoding, notes, what):
    if encoding == "raw":
        return data
    if encoding != "gzip":
        raise SpecViolation("encoding", f"unknown encoding {encoding!r}")
    try:
        d = zlib.decompressobj(16 + zlib.MAX_WBITS)     # strict RFC 1952
        out = d.decompress(data) + d.flush()
        if not d.eof:
            raise zlib.error("truncated gzip stream")
        return out
    except zlib.error as e:
        # tolerant fallback so that the rest of the structure can still be
        # checked; the deviation itself is reported through ``notes``.
        try:
            out = zlib.decompress(data)               # RFC 1950 (zlib)
        except zlib.error:
            raise SpecViolation(
                "encoding", f"{what}: not a gzip stream ({e})") from None
        notes.add("gzip-is-zlib")
        return out


class ShardFile:
    """Parsed view of one .shard file."""

    def __init__(self, data, minishard_bits, index_encoding, notes):
        self.data = data
        self.idx_end = 16 << minishard_bits
        self.notes = notes
        if len(data) < self.idx_end:
            raise SpecViolation("shard-index", "file shorter than its shard "
                                f"index ({len(data)} < {self.idx_end})")
        self.slots = []
        self.ranges = []          # (abs start, abs end, label), non-empty
        for m in range(1 << minishard_bits):
            s, e = struct.unpack_from("<QQ", data, 16 * m)
            if s > e:
                raise SpecViolation("shard-index", f"slot {m}: start {s} > "
                                    f"end {e}")
            if self.idx_end + e > len(data):
                raise SpecViolation("shard-index", f"slot {m}: minishard "
                                    f"index [{s},{e}) beyond file end "
                                    f"{len(data) - self.idx_end}")
            self.slots.append((s, e))
            if e > s:
                self.ranges.append((self.idx_end + s, self.idx_end + e,
                                    f"minishard-index {m}"))
        self.index_encoding = index_encoding
        self._mini = {}

    def minishard(self, m):
        """Return list of (chunk id, abs start, size) of minishard slot m."""
        if m in self._mini:
            return self._mini[m]
        s, e = self.slots[m]
        if s == e:
            self._mini[m] = []
            return []
        raw = self.data[self.idx_end + s:self.idx_end + e]
        dec = _decode(raw, self.index_encoding, self.notes,
                      f"minishard index {m}")
        if len(dec) % 24 != 0:
            raise SpecViolation("minishard-index", f"slot {m}: decoded "
                                f"length {len(dec)} is not a multiple of 24")
        n = len(dec) // 24
        vals = struct.unpack(f"<{3 * n}Q", dec)
        ids, offs, sizes = vals[:n], vals[n:2 * n], vals[2 * n:]
        out = []
        cid = 0
        prev_end = 0
        for i in range(n):
            if i == 0:
                cid = ids[0]
            else:
                if ids[i] == 0:
                    raise SpecViolation("ids-increasing", f"slot {m}: entry "
                                        f"{i} repeats chunk id {cid}")
                cid += ids[i]
                if cid > U64:
                    raise SpecViolation("ids-increasing", f"slot {m}: id "
                                        "overflow")
            start = prev_end + offs[i]
            end = start + sizes[i]
            if self.idx_end + end > len(self.data):
                raise SpecViolation("range-inside", f"slot {m}: chunk {cid} "
                                    f"[{start},{end}) beyond file end")
            prev_end = end
            out.append((cid, self.idx_end + start, sizes[i]))
            if sizes[i]:
                self.ranges.append((self.idx_end + start,
                                    self.idx_end + end, f"chunk {cid}"))
        self._mini[m] = out
        return out

    def check_no_overlap(self):
        r = sorted(self.ranges)
        for (s1, e1, l1), (s2, e2, l2) in zip(r, r[1:]):
            if s2 < e1:
                raise SpecViolation("overlap", f"{l1} [{s1},{e1}) overlaps "
                                    f"{l2} [{s2},{e2})")
        if r and r[0][0] < self.idx_end:
            raise SpecViolation("overlap", f"{r[0][2]} overlaps the shard "
                                "index")


def check_scale(read_file, list_files, grid_shape, spec, stored, absent):
    """Validate one scale directory against the specification.

    read_file(name) -> bytes | None;  list_files() -> names in the scale dir
    spec: dict(minishard_bits, shard_bits, preshift_bits,
               minishard_index_encoding, data_encoding)
    stored: {pos tuple -> bytes}; absent: iterable of positions never stored.
    Returns (list of (code, message), notes set).
    """
    mb, sb, pb = (spec["minishard_bits"], spec["shard_bits"],
                  spec["preshift_bits"])
    notes = set()
    problems = []
    cache = {}

    def shard_of(name):
        if name not in cache:
            data = read_file(name)
            if data is None:
                cache[name] = None
            else:
                try:
                    cache[name] = ShardFile(
                        data, mb, spec["minishard_index_encoding"], notes)
                except SpecViolation as e:
                    cache[name] = e
        return cache[name]

    def lookup(pos):
        cid = morton(grid_shape, pos)
        shard, mini = route(cid, pb, mb, sb)
        name = shard_filename(shard, sb)
        sf = shard_of(name)
        return cid, shard, mini, name, sf

    for pos in sorted(stored):
        want = stored[pos]
        cid, shard, mini, name, sf = lookup(pos)
        if sf is None:
            problems.append(("file-name", f"chunk {pos} id {cid}: shard file "
                             f"{name} does not exist"))
            continue
        if isinstance(sf, SpecViolation):
            problems.append((sf.code, f"{name}: {sf}"))
            continue
        try:
            entries = sf.minishard(mini)
        except SpecViolation as e:
            problems.append((e.code, f"{name}: {e}"))
            continue
        hit = [en for en in entries if en[0] == cid]
        if not hit:
            # where is it then?  (diagnostic only)
            elsewhere = None
            for m2 in range(1 << mb):
                try:
                    if any(en[0] == cid for en in sf.minishard(m2)):
                        elsewhere = m2
                        break
                except SpecViolation:
                    pass
            problems.append((
                "minishard-slot",
                f"chunk {pos} id {cid} is not listed at slot {mini} of "
                f"{name}" + (f" (found at slot {elsewhere})"
                             if elsewhere is not None else "")))
            continue
        _cid, start, size = hit[0]
        blob = sf.data[start:start + size]
        try:
            got = _decode(blob, spec["data_encoding"], notes,
                          f"chunk {cid}") if (
                              size or spec["data_encoding"] == "raw") else b""
        except SpecViolation as e:
            problems.append((e.code, f"{name}: {e}"))
            continue
        if got != want:
            problems.append(("bytes", f"chunk {pos} id {cid} in {name}: "
                             f"{len(got)} B read != {len(want)} B stored"))

    # every parsed shard: ids route to the slot they are listed in; ranges
    # do not overlap; ids strictly increasing was checked while parsing.
    for name in sorted(list_files()):
        if not name.endswith(".shard"):
            continue
        sf = shard_of(name)
        if sf is None:
            continue
        if isinstance(sf, SpecViolation):
            problems.append((sf.code, f"{name}: {sf}"))
            continue
        stem = name[:-len(".shard")]
        try:
            shard_no = int(stem, 16) if stem else 0
        except ValueError:
            problems.append(("file-name", f"{name}: not a hex shard number"))
            continue
        if name != shard_filename(shard_no, sb):
            problems.append(("file-name", f"{name}: expected "
                             f"{shard_filename(shard_no, sb)}"))
        for m in range(1 << mb):
            try:
                for cid, _s, _z in sf.minishard(m):
                    sh2, m2 = route(cid, pb, mb, sb)
                    if (sh2, m2) != (shard_no, m):
                        problems.append((
                            "minishard-slot",
                            f"{name} slot {m} lists chunk id {cid}, which "
                            f"the specification routes to shard {sh2} "
                            f"minishard {m2}"))
                        break
            except SpecViolation as e:
                problems.append((e.code, f"{name}: {e}"))
        try:
            sf.check_no_overlap()
        except SpecViolation as e:
            problems.append((e.code, f"{name}: {e}"))

    for pos in absent:
        cid, shard, mini, name, sf = lookup(pos)
        if sf is None or isinstance(sf, SpecViolation):
            continue
        try:
            entries = sf.minishard(mini)
        except SpecViolation:
            continue
        for en in entries:
            if en[0] == cid and en[2] != 0:
                problems.append(("absent-listed", f"never-stored chunk {pos} "
                                 f"id {cid} is listed with {en[2]} bytes"))
    return problems, notes
