"""Small environment seams: the gzip header clock and poisoned np.empty."""

import gzip
import types

_ORIG = {}
FIXED_TIME = 1_600_000_000


def install_clock():
    """gzip.GzipFile stamps time.time() into the header; byte-level replay
    digests and cross-run tree comparisons need it simulated.  The repo has no
    other use of wall-clock time."""
    if "gzip.time" in _ORIG:
        return
    _ORIG["gzip.time"] = gzip.time
    fake = types.SimpleNamespace(time=lambda: FIXED_TIME)
    gzip.time = fake
