"""Small environment seams: the gzip header clock and poisoned np.empty."""

import gzip
import types

_ORIG = {}
FIXED_TIME = 1_600_000_000


def install_clock():
    """gzip.GzipFile stamps time.time() into the header; byte-level replay
    digests and cross-run tree comparisons need it simulated.  The repo has no
    other use of wall-clock time."""
    if "gzip.time" in _ORIG:
        return
    _ORIG["gzip.time"] = gzip.time
    fake = types.SimpleNamespace(time=lambda: FIXED_TIME)
    gzip.time = fake


# --------------------------------------------------------------------------
# SimMem: the contents of np.empty in repository modules

_POISON_MODULES = ("dyadic_pyramid", "downscaling", "chunk_encoding",
                   "_compressed_segmentation", "utils")


class _NpProxy:
    """Stands in for the module-level name ``np`` inside repository modules:
    everything is numpy's, except that ``empty`` returns memory filled with
    the run's poison byte instead of whatever the allocator hands out."""

    def __init__(self, real, poison):
        object.__setattr__(self, "_real", real)
        object.__setattr__(self, "_poison", poison)
        object.__setattr__(self, "empty_calls", 0)

    def __getattr__(self, name):
        return getattr(self._real, name)

    def empty(self, shape, dtype=float, order="C", **kw):
        a = self._real.empty(shape, dtype, order, **kw)
        object.__setattr__(self, "empty_calls", self.empty_calls + 1)
        if a.size:
            a.reshape(-1).view(self._real.uint8)[:] = self._poison
        return a


def install_poison(poison):
    """Poison byte 0..255 (None restores numpy)."""
    import importlib
    import numpy
    proxies = []
    for name in _POISON_MODULES:
        mod = importlib.import_module("neuroglancer_scripts." + name)
        if poison is None:
            mod.np = numpy
        else:
            p = _NpProxy(numpy, poison)
            mod.np = p
            proxies.append(p)
    return proxies
