#!/venv/bin/python
"""Harness self-test (MANIFEST.setup_cmd runs it with --fast).

1. import check: the repository under test is the working tree;
2. SimFS fidelity: seeded fault-free op sequences on SimFS and on a real
   scratch directory must give identical results, errnos and trees;
3. oracle vectors: the independent references (sharded spec reader, ...) on
   hand-made vectors;
4. determinism: every check engine, same seeds twice -- in-process recheck is
   done inside each check; here: fresh interpreters under different
   PYTHONHASHSEED values and different worker counts must produce identical
   per-run digests;
5. evidence files present validate against the schema (needs python3-vt).
"""
import argparse
import glob
import json
import os
import pathlib
import random
import shutil
import subprocess
import sys
import tempfile

sys.path.insert(0, os.path.dirname(os.path.dirname(os.path.abspath(__file__))))
from sim import core  # noqa: E402

V = core.VERIF_ROOT
PY = sys.executable


def fidelity(n_seq, seed=1):
    from sim import simenv, simfs
    from sim.simfs import SimFS, mounted
    simfs.install()
    simenv.install_clock()      # gzip header mtime must not differ
    bad = 0
    for s in range(n_seq):
        rng = random.Random(seed * 100003 + s)
        real_root = tempfile.mkdtemp(prefix="verif-fid-")
        fs = SimFS(blksize=rng.choice([512, 4096]))
        fs.dirs["/simfs/f"] = True
        names = ["a", "b", "d", "d/x", "d/e", "d/e/y", "a.gz", "d/../a",
                 "nope/z", "a/under_file", "./b", "d//x"]
        ops = []
        for _ in range(rng.randint(5, 40)):
            k = rng.choice(["open", "open", "open", "mkdir", "makedirs",
                            "unlink", "rmdir", "listdir", "stat", "exists",
                            "is_file", "rename", "pmkdir", "gzw", "gzr",
                            "rw+"])
            ops.append((k, rng.choice(names), rng.choice(names),
                        rng.choice(["rb", "wb", "xb", "ab", "r", "w", "rb",
                                    "wb"]),
                        rng.randint(0, 3000), rng.randrange(1 << 20),
                        rng.random() < 0.5))

        def run(root):
            out = []
            for (k, n1, n2, mode, size, ps, flag) in ops:
                p1, p2 = root + "/" + n1, root + "/" + n2
                try:
                    if k == "open":
                        with open(p1, mode) as f:
                            if "r" in mode:
                                d = f.read()
                                r = len(d), core.h8(
                                    d if isinstance(d, bytes) else d.encode())
                            else:
                                data = core.payload(ps, size)
                                if "b" not in mode:
                                    data = data.hex()
                                f.write(data)
                                if flag:
                                    f.seek(max(0, size // 2))
                                    f.write(data[:7])
                                r = f.tell()
                    elif k == "rw+":
                        with open(p1, "r+b") as f:
                            f.seek(size // 3)
                            f.write(b"XYZ")
                            f.seek(0)
                            r = core.h8(f.read())
                    elif k == "gzw":
                        import gzip
                        with gzip.open(p1, "wb" if flag else "xb",
                                       compresslevel=1) as f:
                            f.write(core.payload(ps, size))
                        r = None
                    elif k == "gzr":
                        import gzip
                        with gzip.open(p1, "rb") as f:
                            r = core.h8(f.read())
                    elif k == "mkdir":
                        r = os.mkdir(p1)
                    elif k == "makedirs":
                        r = os.makedirs(p1, exist_ok=flag)
                    elif k == "pmkdir":
                        r = pathlib.Path(p1).mkdir(parents=flag,
                                                   exist_ok=not flag)
                    elif k == "unlink":
                        r = os.unlink(p1)
                    elif k == "rmdir":
                        r = os.rmdir(p1)
                    elif k == "listdir":
                        r = sorted(os.listdir(p1))
                    elif k == "stat":
                        st = os.stat(p1)
                        import stat as sm
                        r = (sm.S_ISDIR(st.st_mode), sm.S_ISREG(st.st_mode),
                             st.st_size if sm.S_ISREG(st.st_mode) else 0)
                    elif k == "exists":
                        r = (pathlib.Path(p1).exists(), os.path.exists(p1),
                             os.path.isdir(p1))
                    elif k == "is_file":
                        r = pathlib.Path(p1).is_file()
                    elif k == "rename":
                        r = os.replace(p1, p2) if flag else os.rename(p1, p2)
                    out.append(("ok", r))
                except OSError as e:
                    out.append(("OSError", type(e).__name__, e.errno))
                except Exception as e:  # noqa: BLE001
                    out.append(("exc", type(e).__name__))
            return out

        try:
            r_real = run(real_root)
            tree_real = []
            for dp, dn, fn in os.walk(real_root):
                rel = dp[len(real_root):]
                tree_real.append((rel, "d"))
                for f in fn:
                    with open(os.path.join(dp, f), "rb") as fh:
                        tree_real.append((rel + "/" + f, fh.read()))
            tree_real.sort(key=lambda e: e[0])
        finally:
            shutil.rmtree(real_root, ignore_errors=True)
        with mounted(fs):
            r_sim = run("/simfs/f")
        tree_sim = [(p[len("/simfs/f"):], v)
                    for p, v in fs.snapshot("/simfs/f")]
        if r_real != r_sim or tree_real != tree_sim:
            bad += 1
            print(f"FIDELITY MISMATCH seq {s}")
            for i, (a, b) in enumerate(zip(r_real, r_sim)):
                if a != b:
                    print("   op", i, ops[i][:4], "real", a, "sim", b)
                    break
            else:
                tr = dict(tree_real)
                ts = dict(tree_sim)
                for p in sorted(set(tr) | set(ts)):
                    if tr.get(p) != ts.get(p):
                        print("   tree differs at", p)
                        break
    print(f"fidelity: {n_seq - bad}/{n_seq} sequences identical on SimFS and "
          "a real directory")
    return bad == 0


def determinism(runs, checks, base_seed=core.DEFAULT_SEED):
    ok = True
    for script in checks:
        name = os.path.basename(script)
        digs = []
        for hashseed, workers in (("0", 16), ("12345", 3)):
            with tempfile.NamedTemporaryFile(suffix=".json") as tf:
                env = dict(os.environ, PYTHONHASHSEED=hashseed)
                p = subprocess.run(
                    [PY, script, "--tier", "quick", "--runs", str(runs),
                     "--budget", "600", "--workers", str(workers),
                     "--seed", str(base_seed),
                     "--digests", tf.name, "--no-evidence"],
                    capture_output=True, text=True, env=env, timeout=1800)
                if p.returncode not in (0, 1):
                    print(f"determinism: {name} exited {p.returncode}\n"
                          + p.stdout[-2000:] + p.stderr[-2000:])
                    ok = False
                    break
                digs.append(json.load(open(tf.name)))
        else:
            a, b = digs
            diff = [k for k in a if a[k] != b.get(k)]
            if diff or len(a) != len(b):
                ok = False
                print(f"determinism: {name} DIFFERS on {len(diff)} of "
                      f"{len(a)} runs, e.g. idx {diff[:5]}")
            else:
                print(f"determinism: {name} {len(a)} runs (base seed "
                      f"{base_seed}) identical across PYTHONHASHSEED "
                      "0/12345 and 16/3 workers")
    return ok


def evidence_schema():
    files = sorted(glob.glob(os.path.join(V, "evidence", "C*.json")))
    if not files or not shutil.which("python3-vt"):
        print("evidence schema: skipped (no files or no python3-vt)")
        return True
    code = ("import json,sys,jsonschema\n"
            "s=json.load(open('/root/.vp/EVIDENCE.schema.json'))\n"
            "bad=0\n"
            "for f in sys.argv[1:]:\n"
            "    try: jsonschema.validate(json.load(open(f)), s)\n"
            "    except Exception as e: bad+=1; print('INVALID', f, str(e)[:300])\n"
            "sys.exit(1 if bad else 0)\n")
    p = subprocess.run(["python3-vt", "-c", code] + files,
                       capture_output=True, text=True)
    print(p.stdout, end="")
    print(f"evidence schema: {len(files)} files "
          + ("valid" if p.returncode == 0 else "INVALID"))
    return p.returncode == 0


def oracle_vectors():
    ok = True
    try:
        from sim.specref import vectors
    except ImportError:
        print("oracle vectors: none yet")
        return True
    for name, fn in vectors.ALL:
        try:
            fn()
            print(f"oracle vector {name}: ok")
        except AssertionError as e:
            ok = False
            print(f"oracle vector {name}: FAILED {e}")
    return ok


def simproc_fidelity():
    """SimProc against real CPython: exit status mapping, LIFO exit handlers,
    handler exceptions ignored for the status."""
    from sim import simproc
    cases = {
        "ret_none": "def main():\n    return None",
        "ret_int": "def main():\n    return 3",
        "ret_big": "def main():\n    return 300",
        "sysexit_none": "def main():\n    raise SystemExit()",
        "sysexit_int": "def main():\n    raise SystemExit(5)",
        "sysexit_str": "def main():\n    raise SystemExit('boom')",
        "uncaught": "def main():\n    raise ValueError('x')",
        "handler_raises":
        "def main():\n    import atexit\n"
        "    atexit.register(lambda: 1/0)\n    return 0",
        "handlers_lifo":
        "def main():\n    import atexit\n"
        "    atexit.register(lambda: LOG.append('a'))\n"
        "    atexit.register(lambda: LOG.append('b'))\n    return 0",
        "handler_after_exception":
        "def main():\n    import atexit\n"
        "    atexit.register(lambda: LOG.append('h'))\n"
        "    raise KeyError('k')",
    }
    ok = True
    for name, src in cases.items():
        prog = ("import sys\nLOG=[]\n" + src + "\n"
                "import atexit\n"
                "atexit.register(lambda: print('LOG', ''.join(LOG)))\n"
                "sys.exit(main())\n")
        p = subprocess.run([PY, "-c", prog], capture_output=True, text=True)
        real_log = next((l[4:] for l in p.stdout.splitlines()
                         if l.startswith("LOG")), "")
        ns = {"LOG": []}
        exec(src, ns)
        r = simproc.run_process(ns["main"])
        sim_log = "".join(ns["LOG"])
        if p.returncode != r.status or real_log != sim_log:
            ok = False
            print(f"simproc fidelity {name}: real status {p.returncode} log "
                  f"{real_log!r} != sim status {r.status} log {sim_log!r}")
    # TemporaryDirectory lifecycle: is the directory still there when an exit
    # handler runs?  Depends on whether the handler was registered before or
    # after the first TemporaryDirectory of the process (LIFO exit hooks).
    from sim.simfs import SimFS, mounted
    for order in ("handler_first", "tempdir_first", "dropped_at_once"):
        body = {
            "handler_first": "atexit.register(probe)\nT = TD()\n",
            "tempdir_first": "T = TD()\natexit.register(probe)\n",
            "dropped_at_once": "atexit.register(probe)\nNAME = TD().name\n"
                               "T = type('X', (), {'name': NAME})\n",
        }[order]
        prog = ("import atexit, os\nfrom tempfile import TemporaryDirectory "
                "as TD\n"
                "def probe():\n    print('EXISTS', os.path.isdir(T.name))\n"
                + body)
        p = subprocess.run([PY, "-c", prog], capture_output=True, text=True)
        real = p.stdout.strip()
        fs = SimFS()
        seen = []

        def main():
            import atexit
            import os
            TD = simproc._SimTemporaryDirectory
            box = {}

            def probe():
                seen.append("EXISTS " + str(os.path.isdir(box["T"].name)))
            if order == "handler_first":
                atexit.register(probe)
                box["T"] = TD()
            elif order == "tempdir_first":
                box["T"] = TD()
                atexit.register(probe)
            else:
                atexit.register(probe)
                name = TD().name
                box["T"] = type("X", (), {"name": name})
        with mounted(fs):
            simproc.run_process(main, fs=fs)
        sim = seen[0] if seen else "no output"
        if real != sim:
            ok = False
            print(f"simproc tempdir lifecycle {order}: real {real!r} != sim "
                  f"{sim!r}")
    print("simproc fidelity:", "ok" if ok else "FAILED",
          f"({len(cases)} cases + 3 TemporaryDirectory lifecycle cases vs. "
          "real subprocesses)")
    return ok


def simhttp_vectors():
    """Server-model vectors written from docs/serving-data.rst / RFC 7233."""
    from sim.simfs import SimFS
    from sim.simhttp import SimServer
    fs = SimFS()
    fs.put("/simfs/d/info", b"{}")
    fs.put("/simfs/d/k/0-4/0-4/0-4.gz", b"GZ")
    fs.put("/simfs/d/k/0-4_0-4_4-8", b"FLAT")
    fs.put("/simfs/d/s/0.shard", bytes(range(100)))
    ok = True

    def expect(cond, what):
        nonlocal ok
        if not cond:
            ok = False
            print("simhttp vector FAILED:", what)
    nginx = SimServer(fs, "/simfs/d", "/ds/", "nginx")
    st, h, b = nginx.handle("GET", "/ds/k/0-4_0-4_0-4", {})
    expect((st, b, h.get("Content-Encoding")) == (200, b"GZ", "gzip"),
           "nginx alias + gzip_static")
    plain = SimServer(fs, "/simfs/d", "/ds/", "plain")
    expect(plain.handle("GET", "/ds/k/0-4_0-4_0-4", {})[0] == 404,
           "plain server does not rewrite")
    expect(plain.handle("GET", "/ds/k/0-4_0-4_4-8", {})[2] == b"FLAT",
           "plain flat chunk")
    expect(plain.handle("GET", "/ds/../etc", {})[0] == 404, "dot-dot")
    st, h, b = plain.handle("GET", "/ds/s/0.shard", {"Range": "bytes=10-19"})
    expect((st, b, h["Content-Range"]) == (206, bytes(range(10, 20)),
                                           "bytes 10-19/100"), "range")
    st, h, b = plain.handle("GET", "/ds/s/0.shard", {"Range": "bytes=90-150"})
    expect((st, len(b), h["Content-Range"]) == (206, 10, "bytes 90-99/100"),
           "range clipped at EOF")
    expect(plain.handle("GET", "/ds/s/0.shard",
                        {"Range": "bytes=100-110"})[0] == 416,
           "range starting at EOF")
    for pol, want in (("416", 416), ("206", 206), ("200", 200)):
        srv = SimServer(fs, "/simfs/d", "/ds/", "plain", pol)
        st, h, b = srv.handle("GET", "/ds/s/0.shard", {"Range": "bytes=5-4"})
        expect(st == want and (st != 200 or len(b) == 100),
               f"zero-length range policy {pol}")
    print("simhttp vectors:", "ok" if ok else "FAILED")
    return ok


# fd-level and tempfile program run on a real directory and on SimFS
def _fd_prog(root):
    out = []
    os.makedirs(root + "/d", exist_ok=True)
    fd = os.open(root + "/d/a", os.O_WRONLY | os.O_CREAT | os.O_EXCL, 0o600)
    out.append(os.write(fd, b"hello"))
    os.fsync(fd); os.close(fd)
    try:
        os.open(root + "/d/a", os.O_WRONLY | os.O_CREAT | os.O_EXCL)
    except FileExistsError as e:
        out.append("EEXIST")
    fd = os.open(root + "/d/a", os.O_RDONLY)
    out.append(os.read(fd, 3)); out.append(os.read(fd, 10)); out.append(os.read(fd, 10))
    out.append(os.fstat(fd).st_size); os.close(fd)
    fd = os.open(root + "/d/a", os.O_RDWR)
    os.lseek(fd, 1, 0); os.write(fd, b"E"); os.close(fd)
    out.append(open(root + "/d/a", "rb").read())
    fd = os.open(root + "/d/a", os.O_WRONLY | os.O_APPEND)
    os.write(fd, b"!!"); os.close(fd)
    with os.fdopen(os.open(root + "/d/b", os.O_WRONLY | os.O_CREAT | os.O_TRUNC), "wb") as f:
        f.write(b"xyz"); f.flush(); os.fsync(f.fileno())
    out.append(open(root + "/d/a", "rb").read()); out.append(open(root + "/d/b", "rb").read())
    with open(root + "/d/c", "wb") as f:
        f.write(b"123"); f.flush(); os.fsync(f.fileno())
    with tempfile.NamedTemporaryFile(dir=root + "/d", delete=False, prefix=".t-") as f:
        f.write(b"tmpdata"); n = f.name
    os.replace(n, root + "/d/c")
    out.append(open(root + "/d/c", "rb").read())
    fd, n = tempfile.mkstemp(dir=root + "/d"); os.write(fd, b"q"); os.close(fd); os.unlink(n)
    d = tempfile.mkdtemp(dir=root); os.rmdir(d)
    with tempfile.NamedTemporaryFile(dir=root + "/d") as f:
        f.write(b"gone")
    try:
        os.open(root + "/d/zz", os.O_RDONLY)
    except FileNotFoundError:
        out.append("ENOENT")
    out.append(sorted(os.listdir(root + "/d")))
    os.link(root + "/d/a", root + "/d/a2")
    try:
        os.link(root + "/d/a", root + "/d/b")
    except FileExistsError:
        out.append("link-EEXIST")
    with open(root + "/d/a", "ab") as f:
        f.write(b"+")
    out.append(open(root + "/d/a2", "rb").read())
    os.unlink(root + "/d/a")
    out.append(open(root + "/d/a2", "rb").read())
    os.makedirs(root + "/e/f/g")
    open(root + "/e/f/x", "wb").close()
    with os.scandir(root + "/e/f") as it:
        out.append(sorted((e.name, e.is_dir(), e.is_file()) for e in it))
    out.append(sorted(p.name for p in pathlib.Path(root + "/e").glob("*/*")))
    shutil.rmtree(root + "/e")
    out.append(os.path.exists(root + "/e"))
    try:
        shutil.rmtree(root + "/nope")
    except FileNotFoundError:
        out.append("rmtree-ENOENT")
    shutil.rmtree(root + "/nope", ignore_errors=True)
    with tempfile.TemporaryDirectory(dir=root) as td:
        open(td + "/k", "wb").close()
        os.mkdir(td + "/sub")
    out.append(sorted(os.listdir(root)))
    return out


def fd_fidelity():
    import shutil
    import tempfile
    from sim import simfs, simproc
    base = "/dev/shm" if os.path.isdir("/dev/shm") else None
    r = tempfile.mkdtemp(prefix="verif-selftest-", dir=base)
    try:
        real = _fd_prog(r)
    finally:
        shutil.rmtree(r, ignore_errors=True)
    simproc.install()
    fs = simfs.SimFS()
    with simfs.mounted(fs):
        os.makedirs("/simfs/r")
        sim = _fd_prog("/simfs/r")
    ok = real == sim
    print("fd-level/tempfile fidelity:", "ok" if ok else
          f"FAILED\n real {real}\n sim  {sim}")
    return ok


def main():
    ap = argparse.ArgumentParser()
    ap.add_argument("--fast", action="store_true")
    ap.add_argument("--only")
    args = ap.parse_args()
    core.bootstrap()
    import neuroglancer_scripts
    print("repository under test:", neuroglancer_scripts.__file__)
    ok = True
    ok &= fidelity(300 if args.fast else 3000)
    ok &= oracle_vectors()
    ok &= simproc_fidelity()
    ok &= fd_fidelity()
    ok &= simhttp_vectors()
    checks = sorted(glob.glob(os.path.join(V, "checks", "c[0-9][0-9].py")))
    if args.only:
        checks = [c for c in checks if args.only in c]
    if not args.fast:
        ok &= determinism(200, checks)
        ok &= determinism(120, checks, base_seed=7)
        ok &= evidence_schema()
    print("SELFTEST", "OK" if ok else "FAILED")
    return 0 if ok else 1


if __name__ == "__main__":
    sys.exit(main())
