"""SimFS: an in-memory file system behind the raw-I/O seam.

The *real* C ``io.Buffered*`` / ``TextIOWrapper`` / ``gzip.GzipFile`` /
``pathlib`` / ``os.makedirs`` run above this seam, so buffer-flush boundaries
and error propagation are CPython's own.  Only what would be a system call on
a real machine is simulated: open, read, write, close, stat, mkdir, unlink,
rmdir, listdir, rename/replace, truncate, fsync.

Every such *raw call* on a path under ``/simfs``
  * gets the next ordinal of the current fault window,
  * is appended to the event log,
  * consults the fault plan,
  * and only then takes effect.

Paths outside ``/simfs`` fall through to the saved original functions.
"""

import builtins
import errno
import io
import os
import stat as statmod
import sys

from sim.core import EventLog, HarnessError

ROOT = "/simfs"
_ROOT_SLASH = ROOT + "/"


class SimCrash(BaseException):
    """The simulated process dies here.  Not an Exception: the repository's
    ``except Exception`` / ``except OSError`` clauses cannot absorb it."""


_ERR = {name: getattr(errno, name) for name in (
    "ENOSPC", "EDQUOT", "EIO", "EACCES", "EROFS", "EMFILE", "ENOENT",
    "ENOTDIR", "EISDIR", "EEXIST", "ENOTEMPTY", "EINVAL", "EBADF", "EINTR")}

# errnos plausible per raw-call kind (used by fault enumeration)
PLAUSIBLE = {
    "open_r": ["EACCES", "EIO", "EMFILE", "ENOENT"],
    "open_w": ["EACCES", "ENOSPC", "EROFS", "EMFILE", "EIO", "EDQUOT"],
    "read": ["EIO"],
    "write": ["ENOSPC", "EIO", "EDQUOT"],
    "close": ["EIO", "ENOSPC"],
    "stat": ["EACCES", "EIO", "ENOENT"],
    "mkdir": ["EACCES", "ENOSPC", "EROFS", "EIO"],
    "unlink": ["EACCES", "EIO", "EROFS"],
    "rmdir": ["EACCES", "EIO"],
    "listdir": ["EACCES", "EIO"],
    "rename": ["EACCES", "EIO", "ENOSPC"],
    "truncate": ["EIO", "ENOSPC"],
    "fsync": ["EIO"],
}


def oserror(name, path=None):
    code = _ERR[name]
    return OSError(code, os.strerror(code), path)


class FileNode:
    __slots__ = ("data",)

    def __init__(self, data=b""):
        self.data = bytearray(data)


class SimFS:
    def __init__(self, blksize=4096, log=None, track_sites=False):
        self.files = {}            # abs path -> FileNode
        self.dirs = {ROOT: True}   # abs path -> True
        self.blksize = blksize
        self.log = log if log is not None else EventLog()
        self.epoch = 0
        self.dead = False
        self.plan = {}             # ordinal -> action tuple
        self.ordinal = 0           # within the current fault window
        self.total_calls = 0
        self.fired = {}            # fault kind -> count
        self.capacity = None       # byte budget for the whole FS (disk full)
        self.track_sites = track_sites
        self.calls = []            # (ordinal, kind, path, site) if tracking
        self.record_calls = False
        self.outside = []          # raw calls whose path escaped a confine dir
        self.confine = None
        self.short_sites = None    # buggify: set of (kind, n % k) etc.
        self.short_every = 0       # benign short transfers every n-th call
        self.listdir_perm = None   # callable(list)->list
        self.open_handles = 0

    # ---- cloning / snapshots ------------------------------------------
    def clone(self, log=None):
        other = SimFS(self.blksize, log, self.track_sites)
        other.files = {p: FileNode(n.data) for p, n in self.files.items()}
        other.dirs = dict(self.dirs)
        other.capacity = self.capacity
        other.short_every = self.short_every
        other.confine = self.confine
        return other

    def snapshot(self, under=ROOT, exclude=()):
        """Sorted tuple of (path, 'd' | bytes) under a directory."""
        pre = under.rstrip("/") + "/"
        out = []
        for p in self.dirs:
            if (p == under or p.startswith(pre)) and not _excluded(p, exclude):
                out.append((p, "d"))
        for p, n in self.files.items():
            if p.startswith(pre) and not _excluded(p, exclude):
                out.append((p, bytes(n.data)))
        out.sort(key=lambda e: e[0])
        return tuple(out)

    def tree_hash(self, under=ROOT, exclude=()):
        import hashlib
        h = hashlib.sha256()
        for p, v in self.snapshot(under, exclude):
            h.update(p.encode())
            h.update(b"\0d" if v == "d" else b"\0f" + hashlib.sha256(v).digest())
        return h.hexdigest()[:24]

    def used(self):
        return sum(len(n.data) for n in self.files.values())

    def listing(self, under=ROOT):
        pre = under.rstrip("/") + "/"
        return sorted(p for p in self.files if p.startswith(pre))

    # ---- fault windows -------------------------------------------------
    def begin_window(self, plan=None, record=False):
        self.ordinal = 0
        self.plan = dict(plan or {})
        self.record_calls = record
        self.calls = []

    def end_window(self):
        self.plan = {}
        self.record_calls = False

    def crash(self):
        self.epoch += 1
        self.dead = True
        self.fired["crash"] = self.fired.get("crash", 0) + 1
        raise SimCrash()

    def restart(self):
        """A new process starts: only the stored state survives."""
        self.dead = False
        self.plan = {}

    def _site(self):
        f = sys._getframe(2)
        while f is not None:
            fn = f.f_code.co_filename
            if "/neuroglancer_scripts/" in fn:
                return (fn.rsplit("/neuroglancer_scripts/", 1)[1]
                        + ":" + str(f.f_lineno))
            f = f.f_back
        return "?"

    def _call(self, kind, path, detail=None, handle_epoch=None):
        """Register a raw call.  Returns the post-effect action (or None).
        Raises OSError / SimCrash for pre-effect actions."""
        if self.dead:
            raise SimCrash()
        k = self.ordinal
        self.ordinal += 1
        self.total_calls += 1
        self.log.add(kind, path, detail)
        if self.confine is not None:
            np_ = os.path.normpath(path)
            if not (np_ == self.confine or np_.startswith(self.confine + "/")
                    or np_.startswith(ROOT + "/tmp/")):
                # (the simulated temp directory is the writer's legitimate
                # scratch space)
                self.outside.append((kind, path))
        if self.record_calls:
            self.calls.append((k, kind, path,
                               self._site() if self.track_sites else "",
                               detail))
        act = self.plan.get(k)
        if act is None:
            return None
        what = act[0]
        if what == "errno":
            self._fire("errno:" + act[1])
            raise oserror(act[1], path)
        if what == "crash_before":
            self.log.add("CRASH-BEFORE", k)
            self.crash()
        self._fire(what)
        return act

    def _fire(self, kind):
        self.fired[kind] = self.fired.get(kind, 0) + 1

    # ---- path resolution ------------------------------------------------
    def _resolve(self, path, kind_for_err=None):
        """Normalise an absolute /simfs path the way the kernel would walk
        it.  Raises ENOENT / ENOTDIR for broken intermediate components."""
        if not path.startswith("/"):
            raise HarnessError(f"relative path reached SimFS: {path!r}")
        stack = []
        for comp in path.split("/"):
            if comp in ("", "."):
                continue
            cur = "/" + "/".join(stack)
            if comp == "..":
                # current must be an existing directory
                if stack:
                    self._need_dir(cur)
                    stack.pop()
                continue
            if stack:
                self._need_dir(cur)
            stack.append(comp)
        out = "/" + "/".join(stack)
        if out != ROOT and not out.startswith(_ROOT_SLASH):
            # walked out of the simulated root: treat as non-existent
            raise oserror("ENOENT", path)
        return out

    def _need_dir(self, p):
        if p == "/" or p in self.dirs:
            return
        if p in self.files:
            raise oserror("ENOTDIR", p)
        raise oserror("ENOENT", p)

    # ---- path operations -------------------------------------------------
    def stat(self, path):
        try:
            p = self._resolve(path)
        except OSError:
            self._call("stat", path, "unresolvable")
            raise
        self._call("stat", p)
        if p in self.dirs:
            return _stat_result(statmod.S_IFDIR | 0o755, 0, _ino(p))
        n = self.files.get(p)
        if n is None:
            raise oserror("ENOENT", path)
        return _stat_result(statmod.S_IFREG | 0o644, len(n.data), _ino(p))

    def mkdir(self, path):
        try:
            p = self._resolve(path)
        except OSError:
            self._call("mkdir", path, "unresolvable")
            raise
        act = self._call("mkdir", p)
        if p in self.dirs or p in self.files:
            raise oserror("EEXIST", path)
        parent = p.rsplit("/", 1)[0]
        self._need_dir(parent)
        self.dirs[p] = True
        self._after(act)

    def unlink(self, path):
        p = self._resolve(path)
        act = self._call("unlink", p)
        if p in self.dirs:
            raise oserror("EISDIR", path)
        if p not in self.files:
            raise oserror("ENOENT", path)
        del self.files[p]
        self._after(act)

    def rmdir(self, path):
        p = self._resolve(path)
        act = self._call("rmdir", p)
        if p in self.files:
            raise oserror("ENOTDIR", path)
        if p not in self.dirs:
            raise oserror("ENOENT", path)
        pre = p + "/"
        if any(q.startswith(pre) for q in self.files) or any(
                q.startswith(pre) for q in self.dirs):
            raise oserror("ENOTEMPTY", path)
        del self.dirs[p]
        self._after(act)

    def listdir(self, path):
        p = self._resolve(path)
        self._call("listdir", p)
        if p in self.files:
            raise oserror("ENOTDIR", path)
        if p not in self.dirs:
            raise oserror("ENOENT", path)
        pre = p + "/"
        names = sorted(
            [q[len(pre):] for q in self.files
             if q.startswith(pre) and "/" not in q[len(pre):]]
            + [q[len(pre):] for q in self.dirs
               if q.startswith(pre) and "/" not in q[len(pre):]])
        if self.listdir_perm is not None:
            names = self.listdir_perm(names)
        return names

    def rename(self, src, dst):
        s = self._resolve(src)
        d = self._resolve(dst)
        act = self._call("rename", s, d)
        if s == d and (s in self.files or s in self.dirs):
            self._after(act)
            return
        if s in self.dirs and d.startswith(s + "/"):
            raise oserror("EINVAL", src)
        if s.startswith(d + "/") and (s in self.files or s in self.dirs):
            raise oserror("ENOTEMPTY", dst)     # target is an ancestor
        if s in self.files:
            if d in self.dirs:
                raise oserror("EISDIR", dst)
            self._need_dir(d.rsplit("/", 1)[0])
            self.files[d] = self.files.pop(s)
        elif s in self.dirs:
            if d in self.files:
                raise oserror("ENOTDIR", dst)
            if d in self.dirs:
                dpre = d + "/"
                if any(q.startswith(dpre) for q in self.files) or any(
                        q.startswith(dpre) for q in self.dirs):
                    raise oserror("ENOTEMPTY", dst)
            self._need_dir(d.rsplit("/", 1)[0])
            spre = s + "/"
            for q in [q for q in self.files if q.startswith(spre)]:
                self.files[d + q[len(s):]] = self.files.pop(q)
            for q in [q for q in self.dirs if q == s or q.startswith(spre)]:
                del self.dirs[q]
                self.dirs[d + q[len(s):]] = True
        else:
            raise oserror("ENOENT", src)
        self._after(act)

    def _after(self, act):
        if act is not None and act[0] == "crash_after":
            self.log.add("CRASH-AFTER")
            self.crash()

    # ---- open -----------------------------------------------------------
    def open(self, path, mode="r", buffering=-1, encoding=None, errors=None,
             newline=None):
        if not isinstance(mode, str):
            raise TypeError("invalid mode")
        flags = set(mode)
        if flags - set("rwxabt+") or len(flags) != len(mode):
            raise ValueError(f"invalid mode: {mode!r}")
        binary = "b" in flags
        if "t" in flags and binary:
            raise ValueError("can't have text and binary mode at once")
        main = [c for c in "rwxa" if c in flags]
        if len(main) != 1:
            raise ValueError("must have exactly one of create/read/write/"
                             "append mode")
        main = main[0]
        plus = "+" in flags
        try:
            p = self._resolve(path)
        except OSError:
            self._call("open_r" if main == "r" else "open_w", path,
                       "unresolvable")
            raise
        kind = "open_r" if (main == "r" and not plus) else "open_w"
        act = self._call(kind, p, mode)
        if p in self.dirs:
            raise oserror("EEXIST" if main == "x" else "EISDIR", path)
        node = self.files.get(p)
        if main == "r":
            if node is None:
                raise oserror("ENOENT", path)
        else:
            parent = p.rsplit("/", 1)[0]
            self._need_dir(parent)
            if main == "x" and node is not None:
                raise oserror("EEXIST", path)
            if node is None:
                node = self.files[p] = FileNode()
            elif main == "w":
                del node.data[:]
        raw = SimRaw(self, node, p, readable=(main == "r" or plus),
                     writable=(main != "r" or plus), append=(main == "a"),
                     mode=mode)
        if main == "a":
            raw.pos = len(node.data)
        self._after(act)
        if buffering == 0:
            if not binary:
                raise ValueError("can't have unbuffered text I/O")
            return raw
        bufsize = self.blksize if buffering in (-1, 1) else buffering
        if plus:
            buf = io.BufferedRandom(raw, bufsize)
        elif main == "r":
            buf = io.BufferedReader(raw, bufsize)
        else:
            buf = io.BufferedWriter(raw, bufsize)
        if binary:
            return buf
        text = io.TextIOWrapper(buf, encoding or "utf-8", errors, newline,
                                line_buffering=(buffering == 1))
        text.mode = mode
        return text

    # ---- helpers for harness code (not raw calls, not logged) -----------
    def put(self, path, data):
        """Harness-side write (bypasses seam, faults and the log)."""
        parts = path.split("/")
        for i in range(2, len(parts)):
            self.dirs["/".join(parts[:i])] = True
        self.files[path] = FileNode(data)

    def get(self, path):
        n = self.files.get(path)
        return None if n is None else bytes(n.data)


def _amount(k, n):
    """Absolute byte count, or (negative) fraction of the request."""
    if k < 0:
        return int(n * -k)
    return int(k)


def _excluded(p, exclude):
    return any(p == e or p.startswith(e + "/") for e in exclude)


def _ino(p):
    return (hash_str(p) & 0x7FFFFFFF) + 2


def hash_str(s):
    h = 1469598103934665603
    for ch in s.encode():
        h = ((h ^ ch) * 1099511628211) & 0xFFFFFFFFFFFFFFFF
    return h


def _stat_result(mode, size, ino):
    return os.stat_result((mode, ino, 64, 1, 0, 0, size, 0, 0, 0))


class SimRaw(io.RawIOBase):
    """One open file description.  Every method that would be a system call
    is a raw call of the owning SimFS."""

    def __init__(self, fs, node, path, readable, writable, append, mode):
        super().__init__()
        self.fs = fs
        self.node = node
        self.path = path
        self._r = readable
        self._w = writable
        self._append = append
        self.mode = mode
        self.name = path
        self.pos = 0
        self.epoch = fs.epoch
        fs.open_handles += 1

    def _gone(self):
        return self.fs.epoch != self.epoch

    def readable(self):
        return self._r

    def writable(self):
        return self._w

    def seekable(self):
        return True

    def fileno(self):
        raise io.UnsupportedOperation("SimFS handles have no file descriptor")

    def isatty(self):
        return False

    def readinto(self, b):
        if self._gone():
            return 0
        if self.closed:
            raise ValueError("I/O operation on closed file")
        if not self._r:
            raise io.UnsupportedOperation("not readable")
        want = len(b)
        act = self.fs._call("read", self.path, want)
        data = self.node.data
        n = max(0, min(want, len(data) - self.pos))
        if n > 1:
            if act is not None and act[0] == "short":
                n = max(1, min(n, _amount(act[1], n)))
            elif self.fs.short_every and (
                    self.fs.total_calls % self.fs.short_every == 0):
                n = max(1, n // 2)
                self.fs._fire("benign_short_read")
        b[:n] = data[self.pos:self.pos + n]
        self.pos += n
        self.fs._after(act)
        return n

    def write(self, b):
        n = len(b)
        if self._gone():
            return n
        if self.closed:
            raise ValueError("I/O operation on closed file")
        if not self._w:
            raise io.UnsupportedOperation("not writable")
        fs = self.fs
        if self._append:
            self.pos = len(self.node.data)
        act = fs._call("write", self.path, (n, self.pos))
        limit = n
        if n > 1:
            if act is not None and act[0] in ("short", "torn"):
                limit = max(1, min(n, _amount(act[1], n)))
            elif fs.short_every and fs.total_calls % fs.short_every == 0:
                limit = max(1, n // 2)
                fs._fire("benign_short_write")
        data = self.node.data
        if self._append:
            self.pos = len(data)
        if fs.capacity is not None:
            grow = max(0, self.pos + limit - len(data))
            avail = fs.capacity - fs.used()
            if grow > avail:
                if avail <= 0 or limit - (grow - avail) <= 0:
                    fs._fire("disk_full")
                    raise oserror("ENOSPC", self.path)
                limit -= grow - avail
                fs._fire("disk_full_partial")
        if self.pos > len(data):
            data.extend(b"\0" * (self.pos - len(data)))
        data[self.pos:self.pos + limit] = bytes(b[:limit])
        self.pos += limit
        if act is not None and act[0] == "torn":
            fs.log.add("CRASH-TORN", limit)
            fs.crash()
        fs._after(act)
        return limit

    def seek(self, off, whence=0):
        if self._gone():
            return 0
        if whence == 0:
            new = off
        elif whence == 1:
            new = self.pos + off
        elif whence == 2:
            new = len(self.node.data) + off
        else:
            raise ValueError("invalid whence")
        if new < 0:
            raise oserror("EINVAL", self.path)
        self.pos = new
        return new

    def tell(self):
        return self.pos

    def truncate(self, size=None):
        if self._gone():
            return 0
        if size is None:
            size = self.pos
        act = self.fs._call("truncate", self.path, size)
        data = self.node.data
        if size < len(data):
            del data[size:]
        else:
            data.extend(b"\0" * (size - len(data)))
        self.fs._after(act)
        return size

    def close(self):
        if self.closed:
            return
        if self._gone() or self.fs.dead:
            super().close()
            return
        try:
            # the descriptor is released whatever close() reports
            super().close()
            self.fs.open_handles -= 1
            act = self.fs._call("close", self.path)
            self.fs._after(act)
        except SimCrash:
            raise


# --------------------------------------------------------------------------
# installation of the seam

_ORIG = {}
_CURRENT = [None]


def current():
    fs = _CURRENT[0]
    if fs is None:
        raise HarnessError("a /simfs path was used while no SimFS is mounted")
    return fs


class mounted:
    """Context manager: ``with mounted(fs): ...``"""

    def __init__(self, fs):
        self.fs = fs

    def __enter__(self):
        install()
        self.prev = _CURRENT[0]
        _CURRENT[0] = self.fs
        return self.fs

    def __exit__(self, *exc):
        _CURRENT[0] = self.prev
        return False


def _is_sim(path):
    if isinstance(path, int):
        return False
    try:
        p = os.fspath(path)
    except TypeError:
        return False
    if isinstance(p, bytes):
        p = p.decode("utf-8", "surrogateescape")
    return p == ROOT or p.startswith(_ROOT_SLASH)


def _s(path):
    p = os.fspath(path)
    if isinstance(p, bytes):
        p = p.decode("utf-8", "surrogateescape")
    return p


def _sim_open(file, mode="r", buffering=-1, encoding=None, errors=None,
              newline=None, closefd=True, opener=None):
    if _is_sim(file):
        return current().open(_s(file), mode, buffering, encoding, errors,
                              newline)
    return _ORIG["open"](file, mode, buffering, encoding, errors, newline,
                         closefd, opener)


def _sim_stat(path, *, dir_fd=None, follow_symlinks=True):
    if _is_sim(path):
        return current().stat(_s(path))
    return _ORIG["stat"](path, dir_fd=dir_fd, follow_symlinks=follow_symlinks)


def _sim_lstat(path, *, dir_fd=None):
    if _is_sim(path):
        return current().stat(_s(path))
    return _ORIG["lstat"](path, dir_fd=dir_fd)


def _sim_mkdir(path, mode=0o777, *, dir_fd=None):
    if _is_sim(path):
        return current().mkdir(_s(path))
    return _ORIG["mkdir"](path, mode, dir_fd=dir_fd)


def _sim_unlink(path, *, dir_fd=None):
    if _is_sim(path):
        return current().unlink(_s(path))
    return _ORIG["unlink"](path, dir_fd=dir_fd)


def _sim_rmdir(path, *, dir_fd=None):
    if _is_sim(path):
        return current().rmdir(_s(path))
    return _ORIG["rmdir"](path, dir_fd=dir_fd)


_REAL_LISTDIR_PERM = {}


def _sim_listdir(path="."):
    if _is_sim(path):
        return current().listdir(_s(path))
    names = _ORIG["listdir"](path)
    perm = _REAL_LISTDIR_PERM.get(os.fspath(path)) if not isinstance(
        path, int) else None
    if perm is not None:
        names = perm(sorted(names))
    return names


def _sim_rename(src, dst, *, src_dir_fd=None, dst_dir_fd=None):
    if _is_sim(src) or _is_sim(dst):
        if not (_is_sim(src) and _is_sim(dst)):
            raise HarnessError("rename across the SimFS boundary")
        return current().rename(_s(src), _s(dst))
    return _ORIG["rename"](src, dst, src_dir_fd=src_dir_fd,
                           dst_dir_fd=dst_dir_fd)


def _unsupported(name):
    def f(path, *a, **kw):
        if _is_sim(path):
            raise HarnessError(f"os.{name} is not modelled by SimFS "
                               f"(path {path!r})")
        return _ORIG[name](path, *a, **kw)
    f.__name__ = name
    return f


def _sim_fsync(fd):
    if isinstance(fd, int):
        return _ORIG["fsync"](fd)
    return None


def install():
    if _ORIG:
        return
    _ORIG.update(open=builtins.open, stat=os.stat, lstat=os.lstat,
                 mkdir=os.mkdir, unlink=os.unlink, rmdir=os.rmdir,
                 listdir=os.listdir, rename=os.rename, replace=os.replace,
                 scandir=os.scandir, fsync=os.fsync)
    _ORIG["os.open"] = os.open
    builtins.open = _sim_open
    io.open = _sim_open
    os.stat = _sim_stat
    os.lstat = _sim_lstat
    os.mkdir = _sim_mkdir
    os.unlink = _sim_unlink
    os.remove = _sim_unlink
    os.rmdir = _sim_rmdir
    os.listdir = _sim_listdir
    os.rename = _sim_rename
    os.replace = _sim_rename
    sc = _unsupported("scandir")
    os.scandir = sc
    real_os_open = os.open

    def _os_open(path, *a, **kw):
        if _is_sim(path):
            raise HarnessError("fd-level os.open on a SimFS path is not "
                               "modelled")
        return real_os_open(path, *a, **kw)
    os.open = _os_open


def real_open(*a, **kw):
    """The genuine builtins.open, for harness code."""
    return _ORIG.get("open", builtins.open)(*a, **kw)


def set_real_listdir_perm(path, perm):
    install()
    if perm is None:
        _REAL_LISTDIR_PERM.pop(path, None)
    else:
        _REAL_LISTDIR_PERM[path] = perm
