"""SimFS: an in-memory file system behind the raw-I/O seam.

The *real* C ``io.Buffered*`` / ``TextIOWrapper`` / ``gzip.GzipFile`` /
``pathlib`` / ``os.makedirs`` run above this seam, so buffer-flush boundaries
and error propagation are CPython's own.  Only what would be a system call on
a real machine is simulated: open, read, write, close, stat, mkdir, unlink,
rmdir, listdir, rename/replace, truncate, fsync.

Every such *raw call* on a path under ``/simfs``
  * gets the next ordinal of the current fault window,
  * is appended to the event log,
  * consults the fault plan,
  * and only then takes effect.

Paths outside ``/simfs`` fall through to the saved original functions.
"""

import builtins
import errno
import io
import os
import stat as statmod
import sys

from sim.core import EventLog, HarnessError

ROOT = "/simfs"
_ROOT_SLASH = ROOT + "/"


class SimCrash(BaseException):
    """The simulated process dies here.  Not an Exception: the repository's
    ``except Exception`` / ``except OSError`` clauses cannot absorb it."""


_ERR = {name: getattr(errno, name) for name in (
    "ENOSPC", "EDQUOT", "EIO", "EACCES", "EROFS", "EMFILE", "ENOENT",
    "ENOTDIR", "EISDIR", "EEXIST", "ENOTEMPTY", "EINVAL", "EBADF", "EINTR",
    "EOPNOTSUPP", "EPERM")}

# errnos plausible per raw-call kind (used by fault enumeration)
PLAUSIBLE = {
    "open_r": ["EACCES", "EIO", "EMFILE", "ENOENT"],
    "open_w": ["EACCES", "ENOSPC", "EROFS", "EMFILE", "EIO", "EDQUOT"],
    "read": ["EIO"],
    "write": ["ENOSPC", "EIO", "EDQUOT"],
    "close": ["EIO", "ENOSPC"],
    "stat": ["EACCES", "EIO", "ENOENT"],
    "mkdir": ["EACCES", "ENOSPC", "EROFS", "EIO"],
    "unlink": ["EACCES", "EIO", "EROFS"],
    "rmdir": ["EACCES", "EIO"],
    "listdir": ["EACCES", "EIO"],
    "rename": ["EACCES", "EIO", "ENOSPC"],
    "link": ["EACCES", "EIO", "ENOSPC"],
    "truncate": ["EIO", "ENOSPC"],
    "fsync": ["EIO"],
}


def oserror(name, path=None):
    code = _ERR[name]
    return OSError(code, os.strerror(code), path)


class FileNode:
    __slots__ = ("data",)

    def __init__(self, data=b""):
        self.data = bytearray(data)


class SimFS:
    def __init__(self, blksize=4096, log=None, track_sites=False):
        self.files = {}            # abs path -> FileNode
        self.dirs = {ROOT: True}   # abs path -> True
        self.blksize = blksize
        self.log = log if log is not None else EventLog()
        self.epoch = 0
        self.dead = False
        self.plan = {}             # ordinal -> action tuple
        self.ordinal = 0           # within the current fault window
        self.total_calls = 0
        self.fired = {}            # fault kind -> count
        self.capacity = None       # byte budget for the whole FS (disk full)
        self.track_sites = track_sites
        self.calls = []            # (ordinal, kind, path, site) if tracking
        self.record_calls = False
        self.outside = []          # raw calls whose path escaped a confine dir
        self.confine = None
        self.short_sites = None    # buggify: set of (kind, n % k) etc.
        self.short_every = 0       # benign short transfers every n-th call
        self.listdir_perm = None   # callable(list)->list
        self.open_handles = 0

    # ---- cloning / snapshots ------------------------------------------
    def clone(self, log=None):
        other = SimFS(self.blksize, log, self.track_sites)
        other.files = {p: FileNode(n.data) for p, n in self.files.items()}
        other.dirs = dict(self.dirs)
        other.capacity = self.capacity
        other.short_every = self.short_every
        other.confine = self.confine
        return other

    def snapshot(self, under=ROOT, exclude=()):
        """Sorted tuple of (path, 'd' | bytes) under a directory."""
        pre = under.rstrip("/") + "/"
        out = []
        for p in self.dirs:
            if (p == under or p.startswith(pre)) and not _excluded(p, exclude):
                out.append((p, "d"))
        for p, n in self.files.items():
            if p.startswith(pre) and not _excluded(p, exclude):
                out.append((p, bytes(n.data)))
        out.sort(key=lambda e: e[0])
        return tuple(out)

    def tree_hash(self, under=ROOT, exclude=()):
        import hashlib
        h = hashlib.sha256()
        for p, v in self.snapshot(under, exclude):
            h.update(p.encode())
            h.update(b"\0d" if v == "d" else b"\0f" + hashlib.sha256(v).digest())
        return h.hexdigest()[:24]

    def used(self):
        return sum(len(n.data) for n in self.files.values())

    def listing(self, under=ROOT):
        pre = under.rstrip("/") + "/"
        return sorted(p for p in self.files if p.startswith(pre))

    # ---- fault windows -------------------------------------------------
    def begin_window(self, plan=None, record=False):
        self.ordinal = 0
        self.plan = dict(plan or {})
        self.record_calls = record
        self.calls = []

    def end_window(self):
        self.plan = {}
        self.record_calls = False

    def crash(self):
        self.epoch += 1
        self.dead = True
        self.fired["crash"] = self.fired.get("crash", 0) + 1
        raise SimCrash()

    def restart(self):
        """A new process starts: only the stored state survives."""
        self.dead = False
        self.plan = {}

    def _site(self):
        f = sys._getframe(2)
        while f is not None:
            fn = f.f_code.co_filename
            if "/neuroglancer_scripts/" in fn:
                return (fn.rsplit("/neuroglancer_scripts/", 1)[1]
                        + ":" + str(f.f_lineno))
            f = f.f_back
        return "?"

    def _call(self, kind, path, detail=None, handle_epoch=None):
        """Register a raw call.  Returns the post-effect action (or None).
        Raises OSError / SimCrash for pre-effect actions."""
        if self.dead:
            raise SimCrash()
        k = self.ordinal
        self.ordinal += 1
        self.total_calls += 1
        self.log.add(kind, path, detail)
        if self.confine is not None:
            np_ = os.path.normpath(path)
            if not (np_ == self.confine or np_.startswith(self.confine + "/")
                    or np_.startswith(ROOT + "/tmp/")):
                # (the simulated temp directory is the writer's legitimate
                # scratch space)
                self.outside.append((kind, path))
        if self.record_calls:
            self.calls.append((k, kind, path,
                               self._site() if self.track_sites else "",
                               detail))
        act = self.plan.get(k)
        if act is None:
            return None
        what = act[0]
        if what == "errno":
            self._fire("errno:" + act[1])
            raise oserror(act[1], path)
        if what == "crash_before":
            self.log.add("CRASH-BEFORE", k)
            self.crash()
        self._fire(what)
        return act

    def _fire(self, kind):
        self.fired[kind] = self.fired.get(kind, 0) + 1

    # ---- path resolution ------------------------------------------------
    def _resolve(self, path, kind_for_err=None):
        """Normalise an absolute /simfs path the way the kernel would walk
        it.  Raises ENOENT / ENOTDIR for broken intermediate components."""
        if not path.startswith("/"):
            raise HarnessError(f"relative path reached SimFS: {path!r}")
        stack = []
        for comp in path.split("/"):
            if comp in ("", "."):
                continue
            cur = "/" + "/".join(stack)
            if comp == "..":
                # current must be an existing directory
                if stack:
                    self._need_dir(cur)
                    stack.pop()
                continue
            if stack:
                self._need_dir(cur)
            stack.append(comp)
        out = "/" + "/".join(stack)
        if out != ROOT and not out.startswith(_ROOT_SLASH):
            # walked out of the simulated root: treat as non-existent
            raise oserror("ENOENT", path)
        return out

    def _need_dir(self, p):
        if p == "/" or p in self.dirs:
            return
        if p in self.files:
            raise oserror("ENOTDIR", p)
        raise oserror("ENOENT", p)

    # ---- path operations -------------------------------------------------
    def stat(self, path):
        try:
            p = self._resolve(path)
        except OSError:
            self._call("stat", path, "unresolvable")
            raise
        self._call("stat", p)
        if p in self.dirs:
            return _stat_result(statmod.S_IFDIR | 0o755, 0, _ino(p))
        n = self.files.get(p)
        if n is None:
            raise oserror("ENOENT", path)
        return _stat_result(statmod.S_IFREG | 0o644, len(n.data), _ino(p))

    def mkdir(self, path):
        try:
            p = self._resolve(path)
        except OSError:
            self._call("mkdir", path, "unresolvable")
            raise
        act = self._call("mkdir", p)
        if p in self.dirs or p in self.files:
            raise oserror("EEXIST", path)
        parent = p.rsplit("/", 1)[0]
        self._need_dir(parent)
        self.dirs[p] = True
        self._after(act)

    def unlink(self, path):
        p = self._resolve(path)
        act = self._call("unlink", p)
        if p in self.dirs:
            raise oserror("EISDIR", path)
        if p not in self.files:
            raise oserror("ENOENT", path)
        del self.files[p]
        self._after(act)

    def rmdir(self, path):
        p = self._resolve(path)
        act = self._call("rmdir", p)
        if p in self.files:
            raise oserror("ENOTDIR", path)
        if p not in self.dirs:
            raise oserror("ENOENT", path)
        pre = p + "/"
        if any(q.startswith(pre) for q in self.files) or any(
                q.startswith(pre) for q in self.dirs):
            raise oserror("ENOTEMPTY", path)
        del self.dirs[p]
        self._after(act)

    def listdir(self, path):
        p = self._resolve(path)
        self._call("listdir", p)
        if p in self.files:
            raise oserror("ENOTDIR", path)
        if p not in self.dirs:
            raise oserror("ENOENT", path)
        pre = p + "/"
        names = sorted(
            [q[len(pre):] for q in self.files
             if q.startswith(pre) and "/" not in q[len(pre):]]
            + [q[len(pre):] for q in self.dirs
               if q.startswith(pre) and "/" not in q[len(pre):]])
        if self.listdir_perm is not None:
            names = self.listdir_perm(names)
        return names

    def rename(self, src, dst):
        s = self._resolve(src)
        d = self._resolve(dst)
        act = self._call("rename", s, d)
        if s == d and (s in self.files or s in self.dirs):
            self._after(act)
            return
        if s in self.dirs and d.startswith(s + "/"):
            raise oserror("EINVAL", src)
        if s.startswith(d + "/") and (s in self.files or s in self.dirs):
            raise oserror("ENOTEMPTY", dst)     # target is an ancestor
        if s in self.files:
            if d in self.dirs:
                raise oserror("EISDIR", dst)
            self._need_dir(d.rsplit("/", 1)[0])
            self.files[d] = self.files.pop(s)
        elif s in self.dirs:
            if d in self.files:
                raise oserror("ENOTDIR", dst)
            if d in self.dirs:
                dpre = d + "/"
                if any(q.startswith(dpre) for q in self.files) or any(
                        q.startswith(dpre) for q in self.dirs):
                    raise oserror("ENOTEMPTY", dst)
            self._need_dir(d.rsplit("/", 1)[0])
            spre = s + "/"
            for q in [q for q in self.files if q.startswith(spre)]:
                self.files[d + q[len(s):]] = self.files.pop(q)
            for q in [q for q in self.dirs if q == s or q.startswith(spre)]:
                del self.dirs[q]
                self.dirs[d + q[len(s):]] = True
        else:
            raise oserror("ENOENT", src)
        self._after(act)

    def link(self, src, dst):
        s = self._resolve(src)
        d = self._resolve(dst)
        act = self._call("link", s, d)
        if s in self.dirs:
            raise oserror("EPERM", src)
        if s not in self.files:
            raise oserror("ENOENT", src)
        if d in self.files or d in self.dirs:
            raise oserror("EEXIST", dst)
        self._need_dir(d.rsplit("/", 1)[0])
        self.files[d] = self.files[s]       # one node, two names
        self._after(act)

    def _after(self, act):
        if act is not None and act[0] == "crash_after":
            self.log.add("CRASH-AFTER")
            self.crash()

    # ---- open -----------------------------------------------------------
    def open(self, path, mode="r", buffering=-1, encoding=None, errors=None,
             newline=None):
        if not isinstance(mode, str):
            raise TypeError("invalid mode")
        flags = set(mode)
        if flags - set("rwxabt+") or len(flags) != len(mode):
            raise ValueError(f"invalid mode: {mode!r}")
        binary = "b" in flags
        if "t" in flags and binary:
            raise ValueError("can't have text and binary mode at once")
        main = [c for c in "rwxa" if c in flags]
        if len(main) != 1:
            raise ValueError("must have exactly one of create/read/write/"
                             "append mode")
        main = main[0]
        plus = "+" in flags
        try:
            p = self._resolve(path)
        except OSError:
            self._call("open_r" if main == "r" else "open_w", path,
                       "unresolvable")
            raise
        kind = "open_r" if (main == "r" and not plus) else "open_w"
        act = self._call(kind, p, mode)
        if p in self.dirs:
            raise oserror("EEXIST" if main == "x" else "EISDIR", path)
        node = self.files.get(p)
        if main == "r":
            if node is None:
                raise oserror("ENOENT", path)
        else:
            parent = p.rsplit("/", 1)[0]
            self._need_dir(parent)
            if main == "x" and node is not None:
                raise oserror("EEXIST", path)
            if node is None:
                node = self.files[p] = FileNode()
            elif main == "w":
                del node.data[:]
        raw = SimRaw(self, node, p, readable=(main == "r" or plus),
                     writable=(main != "r" or plus), append=(main == "a"),
                     mode=mode)
        if main == "a":
            raw.pos = len(node.data)
        self._after(act)
        if buffering == 0:
            if not binary:
                raise ValueError("can't have unbuffered text I/O")
            return raw
        bufsize = self.blksize if buffering in (-1, 1) else buffering
        if plus:
            buf = io.BufferedRandom(raw, bufsize)
        elif main == "r":
            buf = io.BufferedReader(raw, bufsize)
        else:
            buf = io.BufferedWriter(raw, bufsize)
        if binary:
            return buf
        text = io.TextIOWrapper(buf, encoding or "utf-8", errors, newline,
                                line_buffering=(buffering == 1))
        text.mode = mode
        return text

    # ---- helpers for harness code (not raw calls, not logged) -----------
    def put(self, path, data):
        """Harness-side write (bypasses seam, faults and the log)."""
        parts = path.split("/")
        for i in range(2, len(parts)):
            self.dirs["/".join(parts[:i])] = True
        self.files[path] = FileNode(data)

    def get(self, path):
        n = self.files.get(path)
        return None if n is None else bytes(n.data)


def _amount(k, n):
    """Absolute byte count, or (negative) fraction of the request."""
    if k < 0:
        return int(n * -k)
    return int(k)


def _excluded(p, exclude):
    return any(p == e or p.startswith(e + "/") for e in exclude)


def _ino(p):
    return (hash_str(p) & 0x7FFFFFFF) + 2


def hash_str(s):
    h = 1469598103934665603
    for ch in s.encode():
        h = ((h ^ ch) * 1099511628211) & 0xFFFFFFFFFFFFFFFF
    return h


def _stat_result(mode, size, ino):
    return os.stat_result((mode, ino, 64, 1, 0, 0, size, 0, 0, 0))


class SimRaw(io.RawIOBase):
    """One open file description.  Every method that would be a system call
    is a raw call of the owning SimFS."""

    def __init__(self, fs, node, path, readable, writable, append, mode):
        super().__init__()
        self.fs = fs
        self.node = node
        self.path = path
        self._r = readable
        self._w = writable
        self._append = append
        self.mode = mode
        self.name = path
        self.pos = 0
        self.epoch = fs.epoch
        fs.open_handles += 1

    def _gone(self):
        return self.fs.epoch != self.epoch

    def readable(self):
        return self._r

    def writable(self):
        return self._w

    def seekable(self):
        return True

    def fileno(self):
        # a fake descriptor (see the fd-level section below), handed out on
        # demand: f.flush(); os.fsync(f.fileno()) is ordinary durable-write
        # code
        if self.closed:
            raise ValueError("I/O operation on closed file")
        fd = getattr(self, "_fakefd", None)
        if fd is None:
            fd = self._fakefd = _FD_NEXT[0]
            _FD_NEXT[0] += 1
            _FDS[fd] = self
        return fd

    def isatty(self):
        return False

    def readinto(self, b):
        if self._gone():
            return 0
        if self.closed:
            raise ValueError("I/O operation on closed file")
        if not self._r:
            raise io.UnsupportedOperation("not readable")
        want = len(b)
        act = self.fs._call("read", self.path, want)
        data = self.node.data
        n = max(0, min(want, len(data) - self.pos))
        if n > 1:
            if act is not None and act[0] == "short":
                n = max(1, min(n, _amount(act[1], n)))
            elif self.fs.short_every and (
                    self.fs.total_calls % self.fs.short_every == 0):
                n = max(1, n // 2)
                self.fs._fire("benign_short_read")
        b[:n] = data[self.pos:self.pos + n]
        self.pos += n
        self.fs._after(act)
        return n

    def write(self, b):
        n = len(b)
        if self._gone():
            return n
        if self.closed:
            raise ValueError("I/O operation on closed file")
        if not self._w:
            raise io.UnsupportedOperation("not writable")
        fs = self.fs
        if self._append:
            self.pos = len(self.node.data)
        act = fs._call("write", self.path, (n, self.pos))
        limit = n
        if n > 1:
            if act is not None and act[0] in ("short", "torn"):
                limit = max(1, min(n, _amount(act[1], n)))
            elif fs.short_every and fs.total_calls % fs.short_every == 0:
                limit = max(1, n // 2)
                fs._fire("benign_short_write")
        data = self.node.data
        if self._append:
            self.pos = len(data)
        if fs.capacity is not None:
            grow = max(0, self.pos + limit - len(data))
            avail = fs.capacity - fs.used()
            if grow > avail:
                if avail <= 0 or limit - (grow - avail) <= 0:
                    fs._fire("disk_full")
                    raise oserror("ENOSPC", self.path)
                limit -= grow - avail
                fs._fire("disk_full_partial")
        if self.pos > len(data):
            data.extend(b"\0" * (self.pos - len(data)))
        data[self.pos:self.pos + limit] = bytes(b[:limit])
        self.pos += limit
        if act is not None and act[0] == "torn":
            fs.log.add("CRASH-TORN", limit)
            fs.crash()
        fs._after(act)
        return limit

    def seek(self, off, whence=0):
        if self._gone():
            return 0
        if whence == 0:
            new = off
        elif whence == 1:
            new = self.pos + off
        elif whence == 2:
            new = len(self.node.data) + off
        else:
            raise ValueError("invalid whence")
        if new < 0:
            raise oserror("EINVAL", self.path)
        self.pos = new
        return new

    def tell(self):
        return self.pos

    def truncate(self, size=None):
        if self._gone():
            return 0
        if size is None:
            size = self.pos
        act = self.fs._call("truncate", self.path, size)
        data = self.node.data
        if size < len(data):
            del data[size:]
        else:
            data.extend(b"\0" * (size - len(data)))
        self.fs._after(act)
        return size

    def close(self):
        if self.closed:
            return
        if self._gone() or self.fs.dead:
            super().close()
            _FDS.pop(getattr(self, "_fakefd", None), None)
            return
        try:
            # the descriptor is released whatever close() reports
            super().close()
            _FDS.pop(getattr(self, "_fakefd", None), None)
            self.fs.open_handles -= 1
            act = self.fs._call("close", self.path)
            self.fs._after(act)
        except SimCrash:
            raise


# --------------------------------------------------------------------------
# installation of the seam

_ORIG = {}
_CURRENT = [None]


def current():
    fs = _CURRENT[0]
    if fs is None:
        raise HarnessError("a /simfs path was used while no SimFS is mounted")
    return fs


class mounted:
    """Context manager: ``with mounted(fs): ...``"""

    def __init__(self, fs):
        self.fs = fs

    def __enter__(self):
        install()
        self.prev = _CURRENT[0]
        _CURRENT[0] = self.fs
        return self.fs

    def __exit__(self, *exc):
        _CURRENT[0] = self.prev
        return False


def _is_sim(path):
    if isinstance(path, int):
        return False
    try:
        p = os.fspath(path)
    except TypeError:
        return False
    if isinstance(p, bytes):
        p = p.decode("utf-8", "surrogateescape")
    return p == ROOT or p.startswith(_ROOT_SLASH)


def _s(path):
    p = os.fspath(path)
    if isinstance(p, bytes):
        p = p.decode("utf-8", "surrogateescape")
    return p


# ---- fd-level I/O on SimFS paths -----------------------------------------
# os.open() of a SimFS path hands out a fake descriptor (far above anything
# the kernel returns) that stands for one SimRaw; os.read/write/close/lseek/
# fstat/ftruncate/fsync and open(fd)/os.fdopen(fd) on it are the same raw
# calls as through a file object, so the same fault windows apply.
_FD_BASE = 1 << 24
_FDS = {}
_FD_NEXT = [_FD_BASE]


def _fd_mode(flags):
    acc = flags & os.O_ACCMODE
    if flags & getattr(os, "O_TMPFILE", 0) == getattr(os, "O_TMPFILE", -1):
        raise oserror("EOPNOTSUPP", "O_TMPFILE")
    if flags & os.O_DIRECTORY:
        raise HarnessError("os.open(O_DIRECTORY) on a SimFS path is not "
                           "modelled")
    if acc == os.O_RDONLY:
        return "rb"
    plus = "+" if acc == os.O_RDWR else ""
    if flags & os.O_CREAT and flags & os.O_EXCL:
        return "x" + plus + "b"
    if flags & os.O_APPEND:
        return "a" + plus + "b" if flags & os.O_CREAT else None
    if flags & os.O_CREAT and flags & os.O_TRUNC:
        return "w" + plus + "b"
    if flags & os.O_TRUNC:
        return "trunc-existing" + plus
    if flags & os.O_CREAT:
        return "create-keep" + plus
    return "r+b"            # write access to an existing file, no truncation


def _sim_os_open(path, flags, mode=0o777, *, dir_fd=None):
    if not _is_sim(path):
        return _ORIG["os.open"](path, flags, mode, dir_fd=dir_fd)
    fs = current()
    m = _fd_mode(flags)
    p = _s(path)
    if m is None or m.startswith(("trunc-existing", "create-keep")):
        # combinations without a one-letter equivalent: decide on existence
        exists = True
        try:
            fs.stat(p)
        except FileNotFoundError:
            exists = False
        if m is None:                       # O_APPEND without O_CREAT
            if not exists:
                raise oserror("ENOENT", path)
            m = "ab"
        elif m.startswith("trunc-existing"):
            if not exists:
                raise oserror("ENOENT", path)
            m = "w" + ("+" if m.endswith("+") else "") + "b"
        else:                               # O_CREAT, keep content
            plus = "+" if m.endswith("+") else ""
            m = ("r+b" if exists else "x" + plus + "b")
    raw = fs.open(p, m, buffering=0)
    fd = _FD_NEXT[0]
    _FD_NEXT[0] += 1
    _FDS[fd] = raw
    return fd


def _fd_raw(fd):
    return _FDS.get(fd) if isinstance(fd, int) and fd >= _FD_BASE else None


def _sim_os_close(fd):
    raw = _fd_raw(fd)
    if raw is None:
        return _ORIG["os.close"](fd)
    del _FDS[fd]
    raw.close()


def _sim_os_write(fd, data):
    raw = _fd_raw(fd)
    if raw is None:
        return _ORIG["os.write"](fd, data)
    return raw.write(data)


def _sim_os_read(fd, n):
    raw = _fd_raw(fd)
    if raw is None:
        return _ORIG["os.read"](fd, n)
    buf = bytearray(n)
    got = raw.readinto(buf)
    return bytes(buf[:got or 0])


def _sim_os_lseek(fd, pos, how):
    raw = _fd_raw(fd)
    if raw is None:
        return _ORIG["os.lseek"](fd, pos, how)
    return raw.seek(pos, how)


def _sim_os_fstat(fd):
    raw = _fd_raw(fd)
    if raw is None:
        return _ORIG["os.fstat"](fd)
    return raw.fs.stat(raw.path)


def _sim_os_ftruncate(fd, length):
    raw = _fd_raw(fd)
    if raw is None:
        return _ORIG["os.ftruncate"](fd, length)
    raw.truncate(length)


class _FdRaw(io.RawIOBase):
    """File object over a fake descriptor (open(fd) / os.fdopen(fd))."""

    def __init__(self, fd, raw, closefd, mode):
        super().__init__()
        self._fd, self._raw, self._closefd = fd, raw, closefd
        self.mode = mode
        self.name = fd

    def readable(self):
        return self._raw.readable()

    def writable(self):
        return self._raw.writable()

    def seekable(self):
        return True

    def fileno(self):
        return self._fd

    def readinto(self, b):
        return self._raw.readinto(b)

    def write(self, b):
        return self._raw.write(b)

    def seek(self, off, whence=0):
        return self._raw.seek(off, whence)

    def tell(self):
        return self._raw.tell()

    def truncate(self, size=None):
        return self._raw.truncate(size)

    def close(self):
        if self.closed:
            return
        try:
            if self._closefd and self._fd in _FDS:
                _sim_os_close(self._fd)
        finally:
            super().close()


def _open_fd(fd, raw, mode, buffering, encoding, errors, newline, closefd):
    flags = set(mode)
    binary = "b" in flags
    plus = "+" in flags
    main = [c for c in "rwxa" if c in flags][0]
    fr = _FdRaw(fd, raw, closefd, mode)
    if buffering == 0:
        if not binary:
            raise ValueError("can't have unbuffered text I/O")
        return fr
    bufsize = raw.fs.blksize if buffering in (-1, 1) else buffering
    if plus:
        buf = io.BufferedRandom(fr, bufsize)
    elif main == "r":
        buf = io.BufferedReader(fr, bufsize)
    else:
        buf = io.BufferedWriter(fr, bufsize)
    if binary:
        return buf
    text = io.TextIOWrapper(buf, encoding or "utf-8", errors, newline,
                            line_buffering=(buffering == 1))
    text.mode = mode
    return text


def _sim_open(file, mode="r", buffering=-1, encoding=None, errors=None,
              newline=None, closefd=True, opener=None):
    if _is_sim(file):
        if opener is not None:
            fd = opener(_s(file), _mode_flags(mode))
            raw = _fd_raw(fd)
            if raw is None:
                raise HarnessError("opener returned a real descriptor for a "
                                   "SimFS path")
            return _open_fd(fd, raw, mode, buffering, encoding, errors,
                            newline, True)
        return current().open(_s(file), mode, buffering, encoding, errors,
                              newline)
    raw = _fd_raw(file)
    if raw is not None:
        return _open_fd(file, raw, mode, buffering, encoding, errors,
                        newline, closefd)
    return _ORIG["open"](file, mode, buffering, encoding, errors, newline,
                         closefd, opener)


def _sim_stat(path, *, dir_fd=None, follow_symlinks=True):
    if _is_sim(path):
        return current().stat(_s(path))
    return _ORIG["stat"](path, dir_fd=dir_fd, follow_symlinks=follow_symlinks)


def _sim_lstat(path, *, dir_fd=None):
    if _is_sim(path):
        return current().stat(_s(path))
    return _ORIG["lstat"](path, dir_fd=dir_fd)


def _sim_mkdir(path, mode=0o777, *, dir_fd=None):
    if _is_sim(path):
        return current().mkdir(_s(path))
    return _ORIG["mkdir"](path, mode, dir_fd=dir_fd)


def _sim_unlink(path, *, dir_fd=None):
    if _is_sim(path):
        return current().unlink(_s(path))
    return _ORIG["unlink"](path, dir_fd=dir_fd)


def _sim_rmdir(path, *, dir_fd=None):
    if _is_sim(path):
        return current().rmdir(_s(path))
    return _ORIG["rmdir"](path, dir_fd=dir_fd)


_REAL_LISTDIR_PERM = {}


def _sim_listdir(path="."):
    if _is_sim(path):
        return current().listdir(_s(path))
    names = _ORIG["listdir"](path)
    perm = _REAL_LISTDIR_PERM.get(os.fspath(path)) if not isinstance(
        path, int) else None
    if perm is not None:
        names = perm(sorted(names))
    return names


def _sim_rename(src, dst, *, src_dir_fd=None, dst_dir_fd=None):
    if _is_sim(src) or _is_sim(dst):
        if not (_is_sim(src) and _is_sim(dst)):
            raise HarnessError("rename across the SimFS boundary")
        return current().rename(_s(src), _s(dst))
    return _ORIG["rename"](src, dst, src_dir_fd=src_dir_fd,
                           dst_dir_fd=dst_dir_fd)


def _sim_link(src, dst, *, src_dir_fd=None, dst_dir_fd=None,
              follow_symlinks=True):
    if _is_sim(src) or _is_sim(dst):
        if not (_is_sim(src) and _is_sim(dst)):
            raise HarnessError("link across the SimFS boundary")
        return current().link(_s(src), _s(dst))
    return _ORIG["link"](src, dst, src_dir_fd=src_dir_fd,
                         dst_dir_fd=dst_dir_fd,
                         follow_symlinks=follow_symlinks)


class _SimDirEntry:
    def __init__(self, fs, parent, name):
        self.name = name
        self.path = parent.rstrip("/") + "/" + name
        self._fs = fs

    def __fspath__(self):
        return self.path

    def is_dir(self, *, follow_symlinks=True):
        return self._fs._resolve(self.path) in self._fs.dirs

    def is_file(self, *, follow_symlinks=True):
        return self._fs._resolve(self.path) in self._fs.files

    def is_symlink(self):
        return False

    def is_junction(self):
        return False

    def stat(self, *, follow_symlinks=True):
        return self._fs.stat(self.path)

    def inode(self):
        return 0


class _SimScandir:
    def __init__(self, entries):
        self._it = iter(entries)

    def __iter__(self):
        return self

    def __next__(self):
        return next(self._it)

    def close(self):
        self._it = iter(())

    def __enter__(self):
        return self

    def __exit__(self, *exc):
        self.close()
        return False


def _sim_scandir(path="."):
    if _is_sim(path):
        fs = current()
        p = _s(path)
        return _SimScandir([_SimDirEntry(fs, p, n) for n in fs.listdir(p)])
    return _ORIG["scandir"](path)


def _sim_rmtree(path, ignore_errors=False, onerror=None, *, onexc=None,
                dir_fd=None):
    """shutil.rmtree on a SimFS path: the portable (non-fd) algorithm --
    list, unlink files, recurse, rmdir -- as raw calls."""
    if not _is_sim(path):
        return _ORIG["rmtree"](path, ignore_errors, onerror, onexc=onexc,
                               dir_fd=dir_fd)

    def fail(fn, pth, exc):
        if ignore_errors:
            return
        if onexc is not None:
            onexc(fn, pth, exc)
        elif onerror is not None:
            onerror(fn, pth, (type(exc), exc, exc.__traceback__))
        else:
            raise exc

    def walk(p):
        try:
            names = os.listdir(p)
        except OSError as exc:
            fail(os.scandir, p, exc)
            names = []
        for n in names:
            q = p.rstrip("/") + "/" + n
            isdir = False
            try:
                import stat as _stat
                isdir = _stat.S_ISDIR(os.lstat(q).st_mode)
            except OSError:
                pass
            if isdir:
                walk(q)
            else:
                try:
                    os.unlink(q)
                except OSError as exc:
                    fail(os.unlink, q, exc)
        try:
            os.rmdir(p)
        except OSError as exc:
            fail(os.rmdir, p, exc)
    walk(_s(path))


def _unsupported(name):
    def f(path, *a, **kw):
        if _is_sim(path):
            raise HarnessError(f"os.{name} is not modelled by SimFS "
                               f"(path {path!r})")
        return _ORIG[name](path, *a, **kw)
    f.__name__ = name
    return f


def _sim_fsync(fd):
    if not isinstance(fd, int):
        fd = fd.fileno()
    raw = _fd_raw(fd)
    if raw is None:
        return _ORIG["fsync"](fd)
    # no volatile page cache is modelled (a crash keeps what write() put,
    # torn writes are a fault of write itself): fsync is a raw call that can
    # fail or be the crash point, nothing more
    if raw._gone():
        return None
    act = raw.fs._call("fsync", raw.path)
    raw.fs._after(act)
    return None


def _mode_flags(mode):
    """The flags io.open passes to an opener for a mode string."""
    plus = "+" in mode
    acc = os.O_RDWR if plus else (os.O_RDONLY if "r" in mode else os.O_WRONLY)
    extra = {"r": 0, "w": os.O_CREAT | os.O_TRUNC,
             "x": os.O_CREAT | os.O_EXCL,
             "a": os.O_CREAT | os.O_APPEND}[[c for c in "rwxa"
                                             if c in mode][0]]
    return acc | extra | getattr(os, "O_CLOEXEC", 0)


def install():
    if _ORIG:
        return
    _ORIG.update(open=builtins.open, stat=os.stat, lstat=os.lstat,
                 mkdir=os.mkdir, unlink=os.unlink, rmdir=os.rmdir,
                 listdir=os.listdir, rename=os.rename, replace=os.replace,
                 scandir=os.scandir, fsync=os.fsync)
    _ORIG["os.open"] = os.open
    builtins.open = _sim_open
    io.open = _sim_open
    os.stat = _sim_stat
    os.lstat = _sim_lstat
    os.mkdir = _sim_mkdir
    os.unlink = _sim_unlink
    os.remove = _sim_unlink
    os.rmdir = _sim_rmdir
    os.listdir = _sim_listdir
    os.rename = _sim_rename
    os.replace = _sim_rename
    os.scandir = _sim_scandir
    _ORIG["link"] = os.link
    os.link = _sim_link
    import shutil
    _ORIG["rmtree"] = shutil.rmtree
    _sim_rmtree.avoids_symlink_attacks = getattr(
        shutil.rmtree, "avoids_symlink_attacks", False)
    shutil.rmtree = _sim_rmtree
    for name in ("close", "write", "read", "lseek", "fstat", "ftruncate"):
        _ORIG["os." + name] = getattr(os, name)
    # tempfile binds os.unlink as a default argument at import time
    try:
        import tempfile
        cl = tempfile._TemporaryFileCloser.cleanup
        if cl.__defaults__ and len(cl.__defaults__) == 2:
            cl.__defaults__ = (cl.__defaults__[0], lambda p: os.unlink(p))
    except (ImportError, AttributeError):
        pass
    os.fsync = _sim_fsync
    if hasattr(os, "fdatasync"):
        os.fdatasync = _sim_fsync
    os.open = _sim_os_open
    os.close = _sim_os_close
    os.write = _sim_os_write
    os.read = _sim_os_read
    os.lseek = _sim_os_lseek
    os.fstat = _sim_os_fstat
    os.ftruncate = _sim_os_ftruncate


def real_open(*a, **kw):
    """The genuine builtins.open, for harness code."""
    return _ORIG.get("open", builtins.open)(*a, **kw)


def set_real_listdir_perm(path, perm):
    install()
    if perm is None:
        _REAL_LISTDIR_PERM.pop(path, None)
    else:
        _REAL_LISTDIR_PERM[path] = perm
