"""Shared engine for C04 / C05: the sharded writer as a reorder buffer.

Chunks are *messages* delivered in an order chosen by the simulator to the
real ``ShardedFileAccessor`` (both buffering strategies) on a fresh SimFS per
order; after ``close()`` the tree is parsed by the independent spec reader
(C04) and read back by a fresh accessor of the repository (C05); trees of all
orders and strategies must be byte-identical (C05).
"""

import itertools
import json

from sim.core import EventLog, HarnessError, Result, excname, payload, sut
from sim.specref import sharded as spec

DS = "/simfs/ds"
KEY = "s0"
PAYLOAD_SIZES = [0, 1, 17, 100, 1000, 4095, 4096, 4097, 5000]

STATS = {}


def _bump(k, n=1):
    STATS[k] = STATS.get(k, 0) + n


def install_probes():
    """Count rare writer conditions from outside by wrapping repo methods."""
    from neuroglancer_scripts import sharded_file_accessor as sfa
    if getattr(getattr(sfa, "MiniShard", None), "_verif_wrapped", False):
        return
    try:
        orig_flush = sfa.MiniShard.flush_buffer
        orig_append = sfa.MiniShard.append
        orig_close = sfa.MiniShard.close
        orig_store = sfa.MiniShard.store_cmc_chunk
    except AttributeError:
        # the writer was refactored: probes are best-effort instrumentation,
        # the oracles do not depend on them
        return
    state = {"in_flush": 0, "in_close": 0, "cascade": 0}

    def flush_buffer(self):
        state["in_flush"] += 1
        if state["in_flush"] == 1:
            state["cascade"] = 0
        try:
            return orig_flush(self)
        finally:
            state["in_flush"] -= 1
            if state["in_flush"] == 0 and state["cascade"] >= 2:
                _bump("flush_cascade_ge2")

    def append(self, buf, cmc):
        if state["in_flush"]:
            state["cascade"] += 1
        if state["in_close"] and len(buf) == 0:
            _bump("gap_fill_on_close")
        return orig_append(self, buf, cmc)

    def close(self):
        state["in_close"] += 1
        try:
            return orig_close(self)
        finally:
            state["in_close"] -= 1

    def store_cmc_chunk(self, buf, cmc):
        r = orig_store(self, buf, cmc)
        try:
            depth = len(self._chunk_buffer)
        except Exception:  # noqa: BLE001
            depth = 0
        if depth > STATS.get("max_pending", 0):
            STATS["max_pending"] = depth
        if depth:
            _bump("parked")
        return r

    sfa.MiniShard.flush_buffer = flush_buffer
    sfa.MiniShard.append = append
    sfa.MiniShard.close = close
    sfa.MiniShard.store_cmc_chunk = store_cmc_chunk
    sfa.MiniShard._verif_wrapped = True


# --------------------------------------------------------------------------
# generation

def gen_scenario(rng, tier):
    r = rng.random()
    if r < 0.12:
        grid = [1, 1, 1]
    elif r < 0.3:
        grid = [rng.choice([1, 2, 3]), rng.choice([1, 2, 3, 5]), 1]
        rng.shuffle(grid)
    else:
        grid = [rng.randint(1, 6) for _ in range(3)]
    cs = rng.choice([1, 2, 3, 4])
    size = [(g - 1) * cs + rng.randint(1, cs) for g in grid]
    r = rng.random()
    if r < 0.15:
        bits = [rng.randint(0, 10), rng.choice([0, 60, 64, 70]),
                rng.choice([0, 1, 3, 64, 70])]
    else:
        bits = [rng.randint(0, 4), rng.randint(0, 4), rng.randint(0, 4)]
    huge = rng.random() < 0.05
    if huge:
        # very large, sparsely populated grids: identifiers with more than 32
        # bits; the shard/minishard bits take (almost) all identifier bits so
        # that the writer's gap filling stays short
        while True:
            nb = [rng.choice([1, 8, 11, 12, 16, 21]) for _ in range(3)]
            if 24 <= sum(nb) <= 60:
                break
        grid = [(1 << b) - rng.choice([0, 0, 1, 3]) if b > 1 else 2
                for b in nb]
        cs = rng.choice([1, 2])
        size = [(g - 1) * cs + rng.randint(1, cs) for g in grid]
        total = sum(spec.nbits(g) for g in grid)
        mb_, pb_ = rng.randint(0, 2), rng.randint(0, 2)
        bits = [mb_, max(0, total - mb_ - pb_ - rng.randint(0, 3)), pb_]
        cand = [(0, 0, 0), tuple(g - 1 for g in grid)]
        for d in range(3):
            hi = [0, 0, 0]
            hi[d] = 1 << (spec.nbits(grid[d]) - 1)
            if hi[d] < grid[d]:
                cand.append(tuple(hi))
        for _ in range(4):
            cand.append(tuple(rng.randrange(g) for g in grid))
        positions = sorted(set(cand), key=lambda p: spec.morton(grid, p))
    else:
        positions = sorted(
            itertools.product(range(grid[0]), range(grid[1]),
                              range(grid[2])),
            key=lambda p: spec.morton(grid, p))
    ids = [spec.morton(grid, p) for p in positions]
    n = len(positions)
    kind = rng.choice(["full", "density", "density", "single", "holes_start",
                       "holes_mid", "holes_end", "one_minishard",
                       "one_per_minishard"])
    if huge:
        kind = rng.choice(["full", "density", "single"])
    if kind == "full":
        pick = list(range(n))
    elif kind == "density":
        p = rng.choice([0.1, 0.3, 0.5, 0.7, 0.9])
        pick = [i for i in range(n) if rng.random() < p]
    elif kind == "single":
        pick = [rng.randrange(n)]
    elif kind in ("holes_start", "holes_mid", "holes_end"):
        k = rng.randint(1, max(1, n // 2))
        if kind == "holes_start":
            pick = list(range(min(k, n - 1), n))
        elif kind == "holes_end":
            pick = list(range(0, max(1, n - k)))
        else:
            a = rng.randint(0, max(0, n - k))
            pick = [i for i in range(n) if not (a <= i < a + k)]
    elif kind == "one_minishard":
        routes = [spec.route(c, bits[2], bits[0], bits[1]) for c in ids]
        target = rng.choice(routes)
        pick = [i for i in range(n) if routes[i] == target]
    else:
        seen = {}
        for i in range(n):
            seen.setdefault(spec.route(ids[i], bits[2], bits[0], bits[1]), i)
        pick = sorted(seen.values())
    if not pick:
        pick = [rng.randrange(n)]
    mode = "pio" if rng.random() < 0.25 else "bytes"
    budget = 150_000
    sizes_pool = PAYLOAD_SIZES if len(pick) <= 12 else [0, 1, 17, 100, 1000]
    r = rng.random()
    if huge:
        mode = "bytes"
    if mode == "bytes" and r < 0.04 and not huge:
        # large payloads: beyond typical 64 KiB buffer / read-ahead windows
        pick = pick[:6]
        sizes_pool = [70000, 66000, 40000, 65536, 100, 30000]
        budget = 600_000
    elif mode == "bytes" and tier == "thorough" and r < 0.05 and not huge:
        # more than 1 MiB in a single minishard
        bits = [0, 0, 0]
        pick = list(range(min(n, 18)))
        sizes_pool = [70000]
        budget = 2_000_000
    chunks = []
    for i in pick:
        x, y, z = positions[i]
        if mode == "pio":
            dims = [min(cs, size[d] - positions[i][d] * cs) for d in range(3)]
            nb = dims[0] * dims[1] * dims[2]
        else:
            nb = rng.choice(sizes_pool)
            if nb > budget:
                nb = 17
        budget -= nb
        chunks.append([x, y, z, nb, rng.randrange(1 << 30)])
    m = len(chunks)
    cid = [spec.morton(grid, c[:3]) for c in chunks]
    asc = sorted(range(m), key=lambda i: cid[i])
    orders = []

    def add(perm, strategy=None, via=None):
        via = via or ("pio" if mode == "pio" else rng.choice(
            ["acc", "acc", "url"]))
        strategy = strategy or rng.choice(["in memory", "on disk"])
        if via == "url":
            strategy = "on disk"     # what get_accessor_for_url gives
        orders.append({"perm": perm, "strategy": strategy, "via": via,
                       "exit_flush": rng.random() < 0.15})

    add(asc, "in memory")
    add(asc[::-1], "on disk")
    k = rng.randint(1, 4)
    for _ in range(k):
        which = rng.choice(["shuffle", "shuffle", "rr", "first_last",
                            "swap_adjacent"])
        if which == "shuffle":
            p = list(asc)
            rng.shuffle(p)
        elif which == "rr":
            groups = {}
            for i in asc:
                groups.setdefault(spec.route(cid[i], bits[2], bits[0],
                                             bits[1]), []).append(i)
            gl = [groups[g] for g in sorted(groups)]
            p = [g[j] for j in range(max(map(len, gl))) for g in gl
                 if j < len(g)]
        elif which == "first_last":
            p = asc[1:] + asc[:1]
        else:
            p = list(asc)
            for j in range(0, m - 1, 2):
                p[j], p[j + 1] = p[j + 1], p[j]
        add(p)
    # second session: part of the set is stored after a first close() of the
    # same accessor, into shards the first part did not touch
    shard_of = [spec.route(c_, bits[2], bits[0], bits[1])[0] for c_ in cid]
    shards_sorted = sorted(set(shard_of))
    second = []
    if len(shards_sorted) >= 2 and rng.random() < 0.25:
        late = set(rng.sample(shards_sorted, rng.randint(
            1, len(shards_sorted) - 1)))
        second = [i for i in range(m) if shard_of[i] in late]
    sc = {"grid": grid, "cs": cs, "size": size, "bits": bits,
          "second_session": second, "huge": huge,
          "ienc": rng.choice(["raw", "gzip"]),
          "denc": rng.choice(["raw", "gzip"]),
          "mode": mode, "subset": kind,
          "blksize": rng.choice([512, 4096, 8192, 65536]),
          "short_every": rng.choice([0, 0, 2, 5]),
          "all_perms": bool(tier == "thorough" and m <= 6
                            and rng.random() < 0.5),
          "two_scales": (not second) and rng.random() < 0.3}
    return {"scenario": sc, "chunks": chunks, "orders": orders}


# --------------------------------------------------------------------------
# execution

def keys_of(sc):
    return [KEY, "s1"] if sc.get("two_scales") else [KEY]


def chunk_payload(c, ki):
    """Payload of chunk descriptor c in scale number ki."""
    return payload(c[4] + 7919 * ki, c[3])


def make_info(sc):
    import copy
    info = _make_info1(sc)
    if sc.get("two_scales"):
        # same grid and sharding under another key: same shard numbers and
        # file names in a sibling directory
        s2 = copy.deepcopy(info["scales"][0])
        s2["key"] = "s1"
        info["scales"].append(s2)
    return info


def _make_info1(sc):
    mb, sb, pb = sc["bits"]
    return {
        "type": "image", "data_type": "uint8", "num_channels": 1,
        "scales": [{
            "key": KEY, "size": list(sc["size"]),
            "chunk_sizes": [[sc["cs"]] * 3], "encoding": "raw",
            "resolution": [1, 1, 1], "voxel_offset": [0, 0, 0],
            "sharding": {
                "@type": "neuroglancer_uint64_sharded_v1",
                "minishard_bits": mb, "shard_bits": sb, "hash": "identity",
                "minishard_index_encoding": sc["ienc"],
                "data_encoding": sc["denc"], "preshift_bits": pb}}]}


def _all_or_near(sc, stored):
    """All grid positions, or -- for huge grids -- the neighbours of the
    stored ones."""
    grid = sc["grid"]
    if not sc.get("huge"):
        return list(itertools.product(*[range(g) for g in grid]))
    out = []
    for p in sorted(stored):
        for d in range(3):
            for dv in (-1, 1):
                q = list(p)
                q[d] += dv
                if 0 <= q[d] < grid[d]:
                    out.append(tuple(q))
    return sorted(set(out))


def coords(sc, pos):
    cs, size = sc["cs"], sc["size"]
    out = []
    for d in range(3):
        lo = pos[d] * cs
        out += [lo, min(lo + cs, size[d])]
    return tuple(out)


def chunk_dims(sc, pos):
    c = coords(sc, pos)
    return (c[1] - c[0], c[3] - c[2], c[5] - c[4])


def write_order(fs, sc, chunks, order, res, tag, explicit_close=True):
    """Deliver the chunk set in one order into a fresh FS and close.
    Returns True if the writer completed."""
    import numpy as np
    from neuroglancer_scripts import precomputed_io
    from neuroglancer_scripts.accessor import get_accessor_for_url
    from neuroglancer_scripts.sharded_file_accessor import ShardedFileAccessor
    info = make_info(sc)
    fs.put(DS + "/info", json.dumps(info).encode())
    if order["via"] == "url":
        st, acc = sut(get_accessor_for_url, DS)
        if st == "ok" and type(acc).__name__ != "ShardedFileAccessor":
            res.violate("C05/dispatch", f"{tag}: info declares sharding but "
                        f"get_accessor_for_url returned {type(acc).__name__}")
            return False
    else:
        st, acc = sut(ShardedFileAccessor, DS, strategy=order["strategy"])
    if st == "exc":
        res.violate("C05/store-fails", f"{tag}: opening the writer raised "
                    f"{acc!r}")
        return False
    pio = None
    if order["via"] == "pio":
        st, pio = sut(precomputed_io.get_IO_for_existing_dataset, acc)
        if st == "exc":
            res.violate("C05/store-fails", f"{tag}: PrecomputedIO raised "
                        f"{pio!r}")
            return False
    keys = keys_of(sc)
    perm = order["perm"]
    late = set(sc.get("second_session") or [])
    if late:
        perm = [i for i in perm if i not in late] + ["close"] + [
            i for i in perm if i in late]
    seq = [(0, i) for i in perm]
    if len(keys) == 2:
        # the second scale receives the same set in reverse arrival order,
        # interleaved with the first
        seq = [q for pair in zip(seq, [(1, i) for i in reversed(perm)])
               for q in pair]
    for ki, i in seq:
        if i == "close":
            st, v = sut(acc.close)
            res.probe("second_session")
            if st == "exc":
                res.violate("C05/store-fails", f"{tag}: intermediate close() "
                            f"raised {v!r}",
                            key=f"C05/close-fails/{excname(v)}")
                return False
            continue
        x, y, z, nb, seed = chunks[i]
        co = coords(sc, (x, y, z))
        buf = chunk_payload(chunks[i], ki)
        fs.log.add("STORE", ki, i, co, nb)
        if pio is not None:
            dx, dy, dz = chunk_dims(sc, (x, y, z))
            arr = np.frombuffer(buf, dtype=np.uint8).reshape(1, dz, dy, dx)
            st, v = sut(pio.write_chunk, arr, keys[ki], co)
        else:
            st, v = sut(acc.store_chunk, buf, keys[ki], co)
        if st == "exc":
            res.violate("C05/store-fails",
                        f"{tag}: store of chunk {(x, y, z)} ({nb} B) raised "
                        f"{v!r}", key=f"C05/store-fails/{excname(v)}")
            return False
    if not explicit_close:
        return True         # the accessor's exit handler has to flush
    st, v = sut(acc.close)
    if st == "exc":
        res.violate("C05/store-fails", f"{tag}: close() raised {v!r}",
                    key=f"C05/close-fails/{excname(v)}")
        return False
    return True


def spec_check(fs, sc, chunks, res, tag):
    grid = sc["grid"]
    mb, sb, pb = sc["bits"]
    problems, notes = [], set()
    for ki, key in enumerate(keys_of(sc)):
        stored = {tuple(c[:3]): chunk_payload(c, ki) for c in chunks}
        absent = [p for p in _all_or_near(sc, stored) if p not in stored]
        if len(absent) > 40:
            step = len(absent) / 40.0
            absent = [absent[int(j * step)] for j in range(40)]
        pre = DS + "/" + key + "/"
        names = [p[len(pre):] for p in fs.listing(DS) if p.startswith(pre)]
        pr, nt = spec.check_scale(
            lambda n, pre=pre: fs.get(pre + n), lambda names=names: names,
            grid,
            {"minishard_bits": mb, "shard_bits": sb, "preshift_bits": pb,
             "minishard_index_encoding": sc["ienc"],
             "data_encoding": sc["denc"]},
            stored, absent)
        problems += [(c_, f"[{key}] {m_}") for c_, m_ in pr]
        notes |= nt
    seen = set()
    for code, msg in problems:
        if code in seen:
            continue
        seen.add(code)
        res.violate(f"C04/{code}", f"{tag}: {msg}")
    for n in sorted(notes):
        res.violate(f"C04/{n}", f"{tag}: data/index declared \"gzip\" is a "
                    "zlib (RFC 1950) stream, not gzip (RFC 1952): a reader "
                    "written from the specification cannot decode it")
    return len(stored), len(absent)


def own_reader_check(fs, sc, chunks, res, tag, via_pio):
    import numpy as np
    from neuroglancer_scripts import precomputed_io
    from neuroglancer_scripts.accessor import get_accessor_for_url
    st, acc = sut(get_accessor_for_url, DS)
    if st == "exc":
        res.violate("C05/reopen", f"{tag}: reopening raised {acc!r}")
        return 0
    if type(acc).__name__ != "ShardedFileAccessor":
        res.violate("C05/dispatch", f"{tag}: reopened dataset is served by "
                    f"{type(acc).__name__}")
        return 0
    pio = None
    if via_pio:
        st, pio = sut(precomputed_io.get_IO_for_existing_dataset, acc)
        if st == "exc":
            res.violate("C05/reopen", f"{tag}: PrecomputedIO raised {pio!r}")
            return 0
    compared = 0
    stored = set()
    keys = keys_of(sc)
    items = [(ki, c) for c in chunks for ki in range(len(keys))]
    for ki, c in items:
        x, y, z, nb, seed = c
        stored.add((x, y, z))
        co = coords(sc, (x, y, z))
        want = chunk_payload(c, ki)
        if pio is not None:
            st, v = sut(pio.read_chunk, keys[ki], co)
            if st == "ok":
                v = np.ascontiguousarray(v).tobytes()
        else:
            st, v = sut(acc.fetch_chunk, keys[ki], co)
        compared += 1
        if st == "exc":
            res.violate("C05/fetch-stored",
                        f"{tag}: fetch of stored chunk {(x, y, z)} raised "
                        f"{v!r}", key=f"C05/fetch-stored/{excname(v)}")
            return compared
        if bytes(v) != want:
            res.violate("C05/fetch-stored",
                        f"{tag}: fetch of stored chunk {(x, y, z)} returned "
                        f"{len(v)} B != {len(want)} B stored",
                        key="C05/fetch-stored/wrong-bytes")
            return compared
    grid = sc["grid"]
    absent = [p for p in _all_or_near(sc, stored) if p not in stored]
    if len(absent) > 25:
        step = len(absent) / 25.0
        absent = [absent[int(j * step)] for j in range(25)]
    for p in absent:
        st, v = sut(acc.fetch_chunk, KEY, coords(sc, p))
        if st == "ok" and len(v) != 0:
            res.violate("C05/absent-has-data",
                        f"{tag}: never-stored chunk {p} fetched as "
                        f"{len(v)} bytes")
            break
        res.probe("absent_fetch_" + ("empty" if st == "ok" else excname(v)))
    return compared


def execute(trace, pid):
    from sim.simfs import SimFS, mounted
    sc = trace["scenario"]
    chunks = trace["chunks"]
    res = Result()
    log = EventLog()
    STATS.clear()
    orders = list(trace["orders"])
    if sc.get("all_perms") and len(chunks) <= 6:
        base = list(range(len(chunks)))
        orders = [{"perm": list(p), "strategy": s, "via": "acc"}
                  for p in itertools.permutations(base)
                  for s in ("in memory", "on disk")]
        res.probe("all_permutations_sets")
    trees = {}
    steps = 0
    compared = 0
    first_snapshot = None
    for oi, order in enumerate(orders):
        if sorted(order["perm"]) != list(range(len(chunks))):
            raise HarnessError("order is not a permutation of the chunk set")
        fs = SimFS(blksize=sc["blksize"], log=log)
        fs.short_every = sc["short_every"]
        fs.dirs[DS] = True
        tag = (f"order {oi} ({order['strategy']}, via {order['via']}, "
               f"perm {order['perm'][:8]}{'...' if len(chunks) > 8 else ''})")
        log.add("ORDER", oi, order["strategy"], order["via"])
        with mounted(fs):
            if order.get("exit_flush") and not sc.get("second_session"):
                # the writer never calls close(): like the CLI it relies on
                # the exit handler the accessor registered
                from sim import simproc
                box = []
                pr = simproc.run_process(
                    lambda: box.append(write_order(
                        fs, sc, chunks, order, res, tag,
                        explicit_close=False)) and None, fs=fs)
                done = bool(box and box[0]) and pr.exc is None
                res.probe("flushed_by_exit_handler")
                if pr.handler_errors:
                    res.violate("C05/store-fails",
                                f"{tag}: the exit handler that flushes the "
                                f"writer raised {pr.handler_errors}",
                                key="C05/close-fails/exit-handler/"
                                + pr.handler_errors[0])
                    done = False
            else:
                done = write_order(fs, sc, chunks, order, res, tag)
            if done:
                h = fs.tree_hash(DS)
                log.add("TREE", h)
                if h not in trees:
                    trees[h] = oi
                    if first_snapshot is None:
                        first_snapshot = fs.snapshot(DS)
                    spec_check(fs, sc, chunks, res, tag)
                    compared += own_reader_check(
                        fs, sc, chunks, res, tag, sc["mode"] == "pio")
        steps += fs.total_calls
        for k, n in fs.fired.items():
            res.fault(k, n)
        if len(trees) > 1:
            a, b = sorted(trees.values())[:2]
            res.violate("C05/byte-identical",
                        f"shard trees differ between order {a} "
                        f"({orders[a]['strategy']}) and order {b} "
                        f"({orders[b]['strategy']}) of the same chunk set")
        if res.violations:
            break
    res.violations = [v for v in res.violations
                      if v.oracle.startswith(pid + "/")]
    for k, n in STATS.items():
        if k == "max_pending":
            continue
        res.probe(k, n)
    mb, sb, pb = sc["bits"]
    routes = set(spec.route(spec.morton(sc["grid"], c[:3]), pb, mb, sb)
                 for c in chunks)
    shards = set(r[0] for r in routes)
    unused = any((s, m) not in routes for s in shards
                 for m in range(1 << min(mb, 6)))
    if unused:
        res.probe("unused_minishard_slot")
    if mb + sb + pb >= 64:
        res.probe("bits_total_ge_64")
    if any(c[3] > 4096 for c in chunks):
        res.probe("payload_gt_4096")
    if any(c[3] == 0 for c in chunks):
        res.probe("empty_payload")
    res.digest = log.digest()
    res.steps = steps
    res.nontrivial = compared > 0
    mp = STATS.get("max_pending", 0)
    res.sig = "|".join(map(str, [
        "mp%d" % min(mp, 8), "casc" if STATS.get("flush_cascade_ge2") else "-",
        "gap" if STATS.get("gap_fill_on_close") else "-",
        "sh%d" % min(len(shards), 8), "ms%d" % min(len(routes), 16),
        "pre" if pb else "-", "unused" if unused else "-",
        sc["ienc"][0] + sc["denc"][0], sc["mode"], sc["subset"],
        "ovf" if mb + sb + pb >= 64 else "-"]))
    res.info = {"orders": len(orders), "chunks": len(chunks),
                "compared": compared, "raw_calls": steps,
                "distinct_trees": len(trees)}
    return res


def shrink(trace):
    from sim.core import ddmin_candidates
    sc, chunks, orders = trace["scenario"], trace["chunks"], trace["orders"]
    if sc.get("all_perms"):
        yield {"scenario": dict(sc, all_perms=False), "chunks": chunks,
               "orders": orders}
    # fewer orders
    if len(orders) > 1:
        for cand in ddmin_candidates(orders):
            if cand:
                yield {"scenario": sc, "chunks": chunks, "orders": cand}
    # fewer chunks (re-index permutations)
    idx = list(range(len(chunks)))
    for keep in ddmin_candidates(idx):
        if not keep:
            continue
        remap = {old: new for new, old in enumerate(keep)}
        sc2 = dict(sc, second_session=[remap[i] for i in sc.get(
            "second_session", []) if i in remap])
        yield {"scenario": sc2, "chunks": [chunks[i] for i in keep],
               "orders": [dict(o, perm=[remap[i] for i in o["perm"]
                                        if i in remap]) for o in orders]}
    # simpler scenario knobs
    for k, simple in (("short_every", 0), ("blksize", 4096), ("ienc", "raw"),
                      ("denc", "raw")):
        if sc[k] != simple:
            yield {"scenario": dict(sc, **{k: simple}), "chunks": chunks,
                   "orders": orders}
    if sc["mode"] == "bytes":
        for j, c in enumerate(chunks):
            if c[3] > 1:
                yield {"scenario": sc, "orders": orders,
                       "chunks": chunks[:j] + [c[:3] + [1, c[4]]]
                       + chunks[j + 1:]}
    # simpler orders: sorted
    for j, o in enumerate(orders):
        s = sorted(o["perm"])
        if o["perm"] != s:
            yield {"scenario": sc, "chunks": chunks,
                   "orders": orders[:j] + [dict(o, perm=s)] + orders[j + 1:]}
        if o["via"] != "acc" and sc["mode"] == "bytes":
            yield {"scenario": sc, "chunks": chunks,
                   "orders": orders[:j] + [dict(o, via="acc")]
                   + orders[j + 1:]}
    # smaller bits
    for j in range(3):
        if sc["bits"][j] > 0:
            b = list(sc["bits"])
            b[j] = b[j] // 2
            yield {"scenario": dict(sc, bits=b), "chunks": chunks,
                   "orders": orders}
