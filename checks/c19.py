#!/venv/bin/python
"""C19 -- all-in-one conversion equals the step-by-step pipeline; steps are
repeatable; a success exit means everything asked for is there and readable.

Seeded *programs* (sequences of the real CLI commands, each a simulated
process on a shared SimFS, with repetitions of the data-writing steps) versus
``volume-to-precomputed-pyramid``.  Input volumes are small synthetic NIfTI
files on the real scratch file system (nibabel needs real files); everything
the commands write goes to SimFS.  DESIGN.md section 5 (C19)."""
import os
import shutil
import sys
import tempfile

sys.path.insert(0, os.path.dirname(os.path.dirname(os.path.abspath(__file__))))
from sim import core  # noqa: E402
from sim.core import Check, EventLog, Result  # noqa: E402

A = "/simfs/allinone"
S = "/simfs/steps"
S2 = "/simfs/steps_converted"
S3 = "/simfs/steps_wide"


class C19(Check):
    pid = "C19"
    level = "exploration"
    rule = ("one run = one synthetic NIfTI volume + option set and two "
            "programs: the documented step-by-step sequence (generate info, "
            "generate scales, convert volume, compute scales, optional "
            "convert-chunks and scale-stats, with seeded repetitions of the "
            "data-writing steps) and, in the equivalence class, the "
            "all-in-one command with the same options; each command is a "
            "simulated process (exit handlers run; in thorough one "
            "data-writing command may be killed before them) on a shared "
            "SimFS; "
            "distinct = distinct reach signature (class, volume dtype, "
            "scaling, encoding, type, method, layout/sharding, #scales, "
            "repeats, outcome); non-trivial = at least one dataset decoded "
            "and compared / checked for completeness")
    assumptions = [
        "one storage configuration per program (the same --flat/--no-gzip "
        "on every step)",
        "equivalence class uses the default target chunk size and no "
        "--max-scales / --sharding, because the all-in-one command has no "
        "such options",
        "a non-zero exit is not by itself a violation; if exactly one of the "
        "two programs fails it is an inequivalence; if both fail the run is "
        "vacuous (counted, not reported)",
        "sharded programs use isotropic voxels (the sharded writer "
        "legitimately refuses non-cubic chunk sizes)",
        "input volumes live on the real scratch file system and are not "
        "fault-injected",
    ]
    components = {
        "real": ["all scripts/*.main incl. argparse", "volume_reader + "
                 "nibabel", "dyadic_pyramid", "downscaling", "precomputed_io",
                 "accessors", "codecs"],
        "simulated": ["raw file I/O for everything written (SimFS)",
                      "process lifecycle per command (SimProc)",
                      "poison-free np.empty (not altered here)"],
    }
    tiers = {"quick": dict(runs=1200, budget=70, batch=5),
             "thorough": dict(runs=20000, budget=800, batch=5)}
    expected_probes = ["equivalence_compared", "repeat_convert",
                      "repeat_compute_scales", "sharded_program",
                      "multi_scale", "convert_chunks_step", "stats_step",
                      "both_failed_vacuous", "mmap", "header_scaling",
                      "input_max_rescaling", "slices_program",
                      "repeat_slices_step"]

    def setup_worker(self):
        from sim import simenv, simfs, simproc
        simfs.install()
        simproc.install()
        simenv.install_clock()

    # ------------------------------------------------------------------
    def gen(self, rng, tier, idx):
        cls = rng.choice(["equiv", "equiv", "steps", "steps", "steps",
                          "slices"])
        vdtype = rng.choice(["uint8", "uint8", "uint16", "uint32", "int16",
                             "float32", "float64"])
        scaling = rng.random() < 0.25
        if cls == "slices":
            shape = [rng.randint(1, 20) for _ in range(3)]
            tcs = rng.choice([2, 4, 8])
        elif cls == "equiv":
            long_axis = rng.randrange(3)
            shape = [rng.randint(1, 6) for _ in range(3)]
            shape[long_axis] = rng.choice([20, 65, 70, 129, 140])
            tcs = 64
        else:
            shape = [rng.randint(1, 24) for _ in range(3)]
            tcs = rng.choice([2, 4, 8, 16])
        sharding = None
        iso = rng.random() < 0.5
        if cls == "steps" and rng.random() < 0.3:
            sharding = [rng.randint(0, 3) for _ in range(3)]
            iso = True
        vox = [1.0, 1.0, 1.0] if iso else [
            rng.choice([0.5, 1.0, 2.0, 3.0, 0.8]) for _ in range(3)]
        nchan = rng.choice([0, 0, 0, 2, 3])     # 0 = 3-D volume
        encoding = rng.choice([None, None, "raw", "compressed_segmentation"])
        typ = rng.choice([None, None, "image", "segmentation"])
        method = rng.choice(["auto", "auto", "average", "majority",
                             "stride"])
        scn = {"cls": cls, "vdtype": vdtype, "scaling": scaling,
               "shape": shape, "nchan": nchan, "vox": vox, "tcs": tcs,
               "max_scales": rng.choice([None, None, 2, 3])
               if cls == "steps" else None,
               "sharding": sharding, "encoding": encoding, "type": typ,
               "method": method, "flat": rng.random() < 0.4,
               "gzip": rng.random() < 0.6,
               "mmap": rng.random() < 0.3,
               "ignore_scaling": rng.random() < 0.15,
               "input_max": rng.choice([None, None, None, 100.0, 255.0,
                                        1000.0]),
               "input_min": rng.choice([None, None, 0.0, 10.0, -5.0]),
               "outside": rng.choice([None, None, 0.0, 7.0]),
               "repeat_convert": rng.random() < 0.4,
               "repeat_scales": rng.random() < 0.4,
               "convert_chunks": rng.random() < 0.3,
               "stats": rng.random() < 0.4,
               "seed": rng.randrange(1 << 30),
               "code": rng.choice(["RAS", "LPI", "ASR", "ILP", "PSL", "SRA"]),
               "blksize": rng.choice([512, 4096, 65536]),
               # thorough: one data-writing command of the step-by-step
               # program is killed before its exit handlers run; the later
               # commands then work on whatever it left
               "kill_step": (rng.choice(["convert", "compute_scales"])
                             if tier == "thorough" and cls == "steps"
                             and rng.random() < 0.2 else None)}
        return {"scenario": scn}

    # ------------------------------------------------------------------
    def _make_volume(self, scn, path):
        import nibabel
        import numpy as np
        rng = np.random.RandomState(scn["seed"] % (1 << 31))
        shape = list(scn["shape"]) + ([scn["nchan"]] if scn["nchan"] else [])
        dt = np.dtype(scn["vdtype"])
        if dt.kind == "f":
            data = (rng.rand(*shape) * 200 - 50).astype(dt)
        elif dt.kind == "i":
            data = rng.randint(-300, 3000, size=shape).astype(dt)
        else:
            hi = min(int(np.iinfo(dt).max), 70000)
            data = rng.randint(0, hi + 1, size=shape).astype(dt)
        affine = np.diag(list(scn["vox"]) + [1.0])
        affine[:3, 3] = [-3.0, 5.5, 10.0]
        img = nibabel.Nifti1Image(data, affine)
        if scn["scaling"]:
            img.header.set_slope_inter(0.5, 10.0)
            # nibabel writes the array as stored values when slope is set on
            # the header of an in-memory image only via the ArrayWriter; keep
            # it simple: store raw values, declare the scaling
            nibabel.save(img, path)
            with open(path, "r+b") as f:
                f.seek(112)     # scl_slope, scl_inter in the NIfTI-1 header
                import struct
                f.write(struct.pack("<ff", 0.5, 10.0))
        else:
            nibabel.save(img, path)

    def _programs(self, scn):
        common = []
        if scn["flat"]:
            common.append("--flat")
        if not scn["gzip"]:
            common.append("--no-gzip")
        conv_opts = list(common)
        if scn["mmap"]:
            conv_opts.append("--mmap")
        if scn["ignore_scaling"]:
            conv_opts.append("--ignore-scaling")
        scale_opts = []
        if scn.get("input_max") is not None:
            scale_opts += ["--input-max", str(scn["input_max"])]
            if scn.get("input_min") is not None:
                scale_opts += ["--input-min", str(scn["input_min"])]
        conv_opts += scale_opts
        ds_opts = []
        if scn["method"] != "auto":
            ds_opts += ["--downscaling-method", scn["method"]]
        if scn["outside"] is not None:
            ds_opts += ["--outside-value", str(scn["outside"])]
        te = []
        if scn["type"]:
            te += ["--type", scn["type"]]
        if scn["encoding"]:
            te += ["--encoding", scn["encoding"]]
        steps = []
        gi = ["volume-to-precomputed", "--generate-info", "VOL", S]
        if scn["ignore_scaling"]:
            gi.append("--ignore-scaling")
        gi += scale_opts
        if scn["sharding"]:
            gi += ["--sharding", ",".join(map(str, scn["sharding"]))]
            if not scn["gzip"]:
                gi.append("--no-gzip")
        steps.append(("generate_info", gi))
        gs = ["generate-scales-info", S + "/info_fullres.json", S,
              "--target-chunk-size", str(scn["tcs"])] + te
        if scn["max_scales"]:
            gs += ["--max-scales", str(scn["max_scales"])]
        steps.append(("generate_scales", gs))
        conv = ["volume-to-precomputed", "VOL", S] + conv_opts
        steps.append(("convert", conv))
        if scn["repeat_convert"]:
            steps.append(("convert_again", conv))
        cs = ["compute-scales", S] + common + ds_opts
        steps.append(("compute_scales", cs))
        if scn["repeat_scales"]:
            steps.append(("compute_scales_again", cs))
        if scn["repeat_convert"] and scn["repeat_scales"]:
            steps.append(("convert_third", conv))
        if scn["convert_chunks"]:
            steps.append(("convert_chunks", ["convert-chunks", S, S2,
                                             "--copy-info"] + common))
        if scn["convert_chunks"] and scn["max_scales"]:
            # a destination whose (pre-made) info may declare MORE scales than
            # the source has: convert-chunks must then fail, not claim success
            steps.append(("generate_scales_wide",
                          ["generate-scales-info", S + "/info_fullres.json",
                           S3, "--target-chunk-size", str(scn["tcs"])] + te))
            steps.append(("convert_chunks_wide",
                          ["convert-chunks", S, S3] + common))
        if scn["stats"]:
            steps.append(("stats", ["scale-stats", S]))
        allinone = (["volume-to-precomputed-pyramid", "VOL", A] + conv_opts
                    + ds_opts + te)
        return steps, allinone

    def execute(self, trace):
        scn = trace["scenario"]
        tmp = tempfile.mkdtemp(prefix="verif-c19-", dir=_scratch())
        try:
            if scn["cls"] == "slices":
                return self._execute_slices(scn, tmp)
            vol = os.path.join(tmp, "vol.nii")
            self._make_volume(scn, vol)
            return self._execute(scn, vol)
        finally:
            shutil.rmtree(tmp, ignore_errors=True)

    def _execute_slices(self, scn, tmp):
        """The documented slice workflow: hand-written info_fullres.json ->
        generate-scales-info -> slices-to-precomputed -> compute-scales
        [-> scale-stats], data-writing steps optionally repeated."""
        import json
        import numpy as np
        import PIL.Image
        from sim import dsutil, simproc
        from sim.simfs import SimFS, mounted
        from neuroglancer_scripts.scripts import (
            compute_scales, generate_scales_info, scale_stats,
            slices_to_precomputed)
        res = Result()
        log = EventLog()
        fs = SimFS(blksize=scn["blksize"], log=log)
        nc, nr, ns = scn["shape"]
        code = scn["code"]
        axis = {"R": 0, "L": 0, "A": 1, "P": 1, "S": 2, "I": 2}
        size = [0, 0, 0]
        for i, n in enumerate((nc, nr, ns)):
            size[axis[code[i]]] = n
        sdir = os.path.join(tmp, "slices")
        os.mkdir(sdir)
        rng = np.random.RandomState(scn["seed"] % (1 << 31))
        for i in range(ns):
            PIL.Image.fromarray(rng.randint(0, 256, size=(nr, nc)).astype(
                np.uint8)).save(os.path.join(sdir, f"s{i:03d}.png"))
        fullres = {"type": "image", "data_type": "uint8", "num_channels": 1,
                   "scales": [{"encoding": "raw", "size": size,
                               "resolution": [v * 1e6 for v in scn["vox"]],
                               "voxel_offset": [0, 0, 0]}]}
        fs.dirs[S] = True
        fs.put(S + "/info_fullres.json", json.dumps(fullres).encode())
        common = []
        if scn["flat"]:
            common.append("--flat")
        if not scn["gzip"]:
            common.append("--no-gzip")
        te = []
        if scn["type"]:
            te += ["--type", scn["type"]]
        if scn["encoding"]:
            te += ["--encoding", scn["encoding"]]
        ds_opts = []
        if scn["method"] != "auto":
            ds_opts += ["--downscaling-method", scn["method"]]
        conv = ["slices-to-precomputed", sdir, S, "--input-orientation",
                code] + common
        cs = ["compute-scales", S] + common + ds_opts
        steps = [("generate_scales", ["generate-scales-info",
                                      S + "/info_fullres.json", S,
                                      "--target-chunk-size", str(scn["tcs"])]
                  + te), ("convert", conv)]
        if scn["repeat_convert"]:
            steps.append(("convert_again", conv))
        steps.append(("compute_scales", cs))
        if scn["repeat_scales"]:
            steps.append(("compute_scales_again", cs))
        if scn["stats"]:
            steps.append(("stats", ["scale-stats", S]))
        mains = {"generate-scales-info": generate_scales_info.main,
                 "slices-to-precomputed": slices_to_precomputed.main,
                 "compute-scales": compute_scales.main,
                 "scale-stats": scale_stats.main}
        compared = 0
        n_scales = 0
        flags = set()
        prev = None

        def dataset():
            raw = fs.get(S + "/info")
            info = json.loads(raw)
            return info, dsutil.read_dataset(S, info)

        def same(d1, d2):
            for k in sorted(d1):
                a, b = d1[k], d2[k]
                if a[0] != b[0] or (a[0] == "ok" and not np.array_equal(
                        a[1], b[1])):
                    return f"chunk {k} differs"
            return None
        with mounted(fs):
            for name, argv in steps:
                log.add("RUN", [a if a != sdir else "SLICES" for a in argv])
                pr = simproc.run_process(mains[argv[0]], argv, fs=fs)
                log.add("EXIT", pr.status, pr.exc, pr.handler_errors)
                if pr.status != 0:
                    flags.add("fail:" + name)
                    res.probe("slices_failed_at_" + name + "_" + str(pr.exc))
                    break
                if pr.handler_errors:
                    res.violate("C19/exit-handler-error",
                                f"{name}: exit handler raised "
                                f"{pr.handler_errors} after status 0",
                                key=f"C19/exit-handler-error/{name}/"
                                f"{pr.handler_errors[0]}")
                    break
                if name == "generate_scales":
                    raw = fs.get(S + "/info")
                    if raw is None:
                        res.violate("C19/success-but-missing",
                                    "generate-scales-info exited 0 but info "
                                    "is missing",
                                    key="C19/success-but-missing/info")
                        break
                    n_scales = len(json.loads(raw)["scales"])
                    continue
                if name == "stats":
                    res.probe("stats_step")
                    continue
                info, data = dataset()
                keys = ({info["scales"][0]["key"]}
                        if name.startswith("convert")
                        else {s_["key"] for s_ in info["scales"][1:]})
                bad = [(k, g) for k, g in sorted(data.items(),
                                                 key=lambda kv: kv[0])
                       if k[0] in keys and g[0] != "ok"]
                if bad:
                    res.violate("C19/success-but-missing",
                                f"{argv[0]} exited 0 but chunk {bad[0][0]} "
                                f"is {bad[0][1][0]} ({bad[0][1][1]})",
                                key=f"C19/success-but-missing/{argv[0]}/"
                                f"{bad[0][1][1]}")
                    break
                compared += 1
                if name.endswith("_again"):
                    sub = (lambda d: {k: v for k, v in d.items()
                                      if k[0] in keys}) if name.startswith(
                                          "convert") else (lambda d: d)
                    diff = same(sub(prev), sub(data))
                    flags.add("rep")
                    res.probe("repeat_slices_step")
                    if diff:
                        res.violate("C19/repeat-changes-data",
                                    f"repeating {argv[0]} changed the "
                                    f"dataset: {diff}",
                                    key=f"C19/repeat-changes-data/{argv[0]}")
                        break
                prev = data
        res.probe("slices_program")
        if n_scales > 1:
            res.probe("multi_scale")
        res.digest = log.digest()
        res.steps = fs.total_calls
        res.nontrivial = compared > 0
        res.sig = "|".join(map(str, ["slices", code, scn["encoding"],
                                     scn["type"], scn["method"],
                                     ("F" if scn["flat"] else "D")
                                     + ("z" if scn["gzip"] else "p"),
                                     "n%d" % n_scales,
                                     ",".join(sorted(flags))]))
        res.info = {"compared": compared, "scales": n_scales}
        return res

    def _execute(self, scn, vol):
        import json
        import numpy as np
        from sim import dsutil, simproc
        from sim.simfs import SimFS, mounted
        from neuroglancer_scripts.scripts import (
            compute_scales, convert_chunks, generate_scales_info,
            scale_stats, volume_to_precomputed, volume_to_precomputed_pyramid)
        mains = {"volume-to-precomputed": volume_to_precomputed.main,
                 "generate-scales-info": generate_scales_info.main,
                 "compute-scales": compute_scales.main,
                 "convert-chunks": convert_chunks.main,
                 "scale-stats": scale_stats.main,
                 "volume-to-precomputed-pyramid":
                 volume_to_precomputed_pyramid.main}
        res = Result()
        log = EventLog()
        fs = SimFS(blksize=scn["blksize"], log=log)
        steps, allinone = self._programs(scn)
        flags = set()
        compared = 0
        n_scales = 0

        def run(argv, kill=False):
            real = [vol if a == "VOL" else a for a in argv]
            log.add("RUN", argv, kill)
            pr = simproc.run_process(mains[argv[0]], real, fs=fs,
                                     run_exit_handlers=not kill)
            log.add("EXIT", pr.status, pr.exc, pr.handler_errors)
            return pr

        def dataset(root):
            raw = fs.get(root + "/info")
            if raw is None:
                return None, None
            try:
                info = json.loads(raw)
            except ValueError:
                return None, None
            return info, dsutil.read_dataset(root, info)

        def complete(root, info, data, keys, where):
            """oracle 3: everything asked for exists and decodes."""
            for (key, co), g in sorted(data.items(), key=lambda kv: kv[0]):
                if key not in keys:
                    continue
                if g[0] != "ok":
                    res.violate(
                        "C19/success-but-missing",
                        f"{where} exited 0 but chunk {key} {co} is {g[0]} "
                        f"({g[1]})",
                        key=f"C19/success-but-missing/{where.split()[0]}/"
                        f"{g[1]}")
                    return False
            return True

        def same(d1, d2):
            if d1.keys() != d2.keys():
                return "different chunk sets"
            for k in sorted(d1):
                a, b = d1[k], d2[k]
                if a[0] != b[0]:
                    return f"chunk {k}: {a[0]} vs {b[0]}"
                if a[0] == "ok" and not (
                        a[1].shape == b[1].shape and a[1].dtype == b[1].dtype
                        and np.array_equal(a[1], b[1], equal_nan=True)):
                    return f"chunk {k}: decoded values differ"
            return None

        with mounted(fs):
            fs.dirs[S] = True
            # ---------------- step-by-step program -------------------------
            s_failed = None
            prev = None
            for name, argv in steps:
                if name == scn.get("kill_step"):
                    # killed: no status, no promise; just go on
                    run(argv, kill=True)
                    res.probe("step_killed_before_exit_handlers")
                    res.fault("process_killed_before_exit_handlers")
                    flags.add("killed:" + name)
                    prev = None      # no valid "before" state any more
                    continue
                pr = run(argv)
                ok = pr.status == 0 or (
                    name == "generate_info" and pr.status == 4)
                if pr.handler_errors and pr.status == 0:
                    res.violate("C19/exit-handler-error",
                                f"{name}: exit handler raised "
                                f"{pr.handler_errors} after status 0",
                                key=f"C19/exit-handler-error/{name}/"
                                f"{pr.handler_errors[0]}")
                    break
                if not ok and name.endswith("_wide"):
                    res.probe("wide_step_failed_" + str(pr.exc))
                    continue
                if not ok:
                    s_failed = (name, pr.status, pr.exc,
                                str(pr.exc_obj)[:120])
                    flags.add("fail:" + name.split("_again")[0])
                    res.probe("steps_failed_at_" + name + "_" + str(pr.exc))
                    break
                if name == "generate_info":
                    for f in ("info_fullres.json", "transform.json"):
                        raw = fs.get(S + "/" + f)
                        try:
                            json.loads(raw)
                        except (TypeError, ValueError):
                            res.violate("C19/success-but-missing",
                                        f"generate-info exited {pr.status} "
                                        f"but {f} is missing or not JSON",
                                        key="C19/success-but-missing/info")
                elif name == "generate_scales":
                    info, _ = dataset(S)
                    if info is None:
                        res.violate("C19/success-but-missing",
                                    "generate-scales-info exited 0 but info "
                                    "is missing or invalid",
                                    key="C19/success-but-missing/info")
                    else:
                        n_scales = len(info["scales"])
                elif name in ("convert", "convert_again", "convert_third"):
                    info, data = dataset(S)
                    first = info["scales"][0]["key"]
                    if not complete(S, info, data, {first},
                                    "volume-to-precomputed"):
                        break
                    compared += 1
                    if name != "convert" and prev is not None:
                        res.probe("repeat_convert")
                        flags.add("rep_conv")
                        # repeating the conversion re-writes scale 0 only;
                        # scale 0 must decode to the same contents
                        d0 = {k: v for k, v in data.items() if k[0] == first}
                        p0 = {k: v for k, v in prev.items() if k[0] == first}
                        diff = same(p0, d0)
                        if diff:
                            res.violate("C19/repeat-changes-data",
                                        f"repeating volume-to-precomputed "
                                        f"changed scale {first}: {diff}",
                                        key="C19/repeat-changes-data/convert")
                            break
                    prev = data
                elif name.startswith("compute_scales"):
                    info, data = dataset(S)
                    # compute-scales produces every scale but the first
                    if not complete(S, info, data,
                                    {s["key"] for s in info["scales"][1:]},
                                    "compute-scales"):
                        break
                    compared += 1
                    if name != "compute_scales" and prev is not None:
                        res.probe("repeat_compute_scales")
                        flags.add("rep_scales")
                        diff = same(prev, data)
                        if diff:
                            res.violate("C19/repeat-changes-data",
                                        "repeating compute-scales changed "
                                        f"the dataset: {diff}",
                                        key="C19/repeat-changes-data/"
                                        "compute-scales")
                            break
                    prev = data
                elif name == "convert_chunks":
                    res.probe("convert_chunks_step")
                    info2, data2 = dataset(S2)
                    if info2 is None or not complete(
                            S2, info2, data2,
                            {s["key"] for s in info2["scales"]},
                            "convert-chunks"):
                        if info2 is None:
                            res.violate("C19/success-but-missing",
                                        "convert-chunks exited 0 but the "
                                        "destination info is missing",
                                        key="C19/success-but-missing/"
                                        "convert-chunks/info")
                        break
                    _, data1 = dataset(S)
                    diff = same(data1, data2)
                    if diff:
                        res.violate("C19/convert-chunks-differs",
                                    f"convert-chunks --copy-info: {diff}")
                        break
                elif name == "convert_chunks_wide":
                    res.probe("convert_chunks_wide_success")
                    info3, data3 = dataset(S3)
                    if info3 is None or not complete(
                            S3, info3, data3,
                            {s["key"] for s in info3["scales"]},
                            "convert-chunks"):
                        break
                elif name == "stats":
                    res.probe("stats_step")
                if res.violations:
                    break
            # ---------------- all-in-one program --------------------------
            if scn["cls"] == "equiv" and not res.violations:
                pr = run(allinone)
                a_failed = None if pr.status == 0 else (
                    pr.status, pr.exc, str(pr.exc_obj)[:120])
                if pr.status == 0 and pr.handler_errors:
                    res.violate("C19/exit-handler-error",
                                "all-in-one: exit handler raised "
                                f"{pr.handler_errors}",
                                key="C19/exit-handler-error/allinone")
                elif a_failed and s_failed:
                    res.probe("both_failed_vacuous")
                    flags.add("vacuous")
                elif a_failed or s_failed:
                    res.violate(
                        "C19/inequivalent-outcome",
                        f"step-by-step {'failed at %s' % (s_failed,) if s_failed else 'succeeded'}"
                        f" but all-in-one "
                        f"{'failed %s' % (a_failed,) if a_failed else 'succeeded'}"
                        f" for the same volume and options "
                        f"{' '.join(allinone[3:])}",
                        key="C19/inequivalent-outcome/"
                        + ("steps:%s:%s" % (s_failed[0], s_failed[2])
                           if s_failed else "allinone:%s" % a_failed[1]))
                else:
                    ia, da = dataset(A)
                    isx, dsx = dataset(S)
                    if ia != isx:
                        res.violate("C19/info-differs",
                                    "info of the all-in-one dataset differs "
                                    f"from the step-by-step one: {ia} vs "
                                    f"{isx}")
                    else:
                        if not complete(A, ia, da,
                                        {s["key"] for s in ia["scales"]},
                                        "volume-to-precomputed-pyramid"):
                            pass
                        else:
                            diff = same(da, dsx)
                            compared += 1
                            res.probe("equivalence_compared")
                            if diff:
                                res.violate("C19/voxels-differ",
                                            "all-in-one vs step-by-step: "
                                            + diff)
            elif s_failed and not res.violations:
                flags.add("steps_failed")
        if scn["sharding"]:
            res.probe("sharded_program")
        if n_scales > 1:
            res.probe("multi_scale")
        if scn["mmap"]:
            res.probe("mmap")
        if scn["scaling"]:
            res.probe("header_scaling")
        if scn.get("input_max") is not None:
            res.probe("input_max_rescaling")
        res.digest = log.digest()
        res.steps = fs.total_calls
        res.nontrivial = compared > 0
        res.sig = "|".join(map(str, [
            scn["cls"], scn["vdtype"], "scl" if scn["scaling"] else "-",
            scn["encoding"], scn["type"], scn["method"],
            "sh" if scn["sharding"] else (
                "F" if scn["flat"] else "D") + ("z" if scn["gzip"] else "p"),
            "n%d" % n_scales, "c%d" % scn["nchan"],
            ",".join(sorted(flags))]))
        res.info = {"compared": compared, "scales": n_scales,
                    "step_failure": s_failed if s_failed else None}
        return res

    def shrink(self, trace):
        scn = trace["scenario"]
        for k, simple in (("repeat_convert", False), ("repeat_scales", False),
                          ("convert_chunks", False), ("stats", False),
                          ("mmap", False), ("ignore_scaling", False),
                          ("scaling", False), ("flat", False), ("gzip", False),
                          ("input_max", None), ("input_min", None),
                          ("kill_step", None),
                          ("outside", None), ("nchan", 0), ("type", None),
                          ("encoding", None), ("method", "auto"),
                          ("max_scales", None), ("blksize", 4096),
                          ("vox", [1.0, 1.0, 1.0])):
            if scn[k] != simple:
                yield {"scenario": dict(scn, **{k: simple})}
        for d in range(3):
            if scn["shape"][d] > 1:
                sh = list(scn["shape"])
                sh[d] = max(1, sh[d] // 2)
                yield {"scenario": dict(scn, shape=sh)}


def _scratch():
    for d in ("/dev/shm", "/tmp"):
        if os.path.isdir(d) and os.access(d, os.W_OK):
            return d
    return None


if __name__ == "__main__":
    sys.exit(core.main(C19(), os.path.abspath(__file__)))
