#!/venv/bin/python
"""C14 -- reading over HTTP equals reading the files locally; failures are
errors, never data.  Real requests/urllib3 stack on a simulated transport +
static-server model, per-request fault sequences.
DESIGN.md section 5 (C14)."""
import itertools
import os
import sys

sys.path.insert(0, os.path.dirname(os.path.dirname(os.path.abspath(__file__))))
from sim import core  # noqa: E402
from sim.core import Check, EventLog, Result, excname, payload, sut  # noqa

DS = "/simfs/srv/ds"
URLS = ["http://sim.test/ds", "http://sim.test/ds/", "https://sim.test/ds/",
        "precomputed://http://sim.test/ds",
        "precomputed://https://sim.test/ds/"]


class C14(Check):
    pid = "C14"
    level = "exploration"
    rule = ("one run = one dataset written by the real writers on SimFS "
            "(plain flat / plain deep behind the documented nginx rules, "
            "gzip on/off; sharded with any parameter triple, encodings, "
            "partially populated shards; .shard or legacy .index/.data) "
            "served by the static-server model; class 1 fetches info and "
            "every position (stored and never stored) over HTTP and locally "
            "and compares; class 2 gives each fetch 1-3 transport/server "
            "faults at seeded request ordinals, through an accessor built "
            "inside the fault window (fresh), built fault-free just before "
            "(cold) or long-lived (warm), followed by fault-free reads on "
            "the same accessor; datasets may have two scales and mixed "
            ".shard / legacy layouts; distinct = distinct reach "
            "signature (dataset kind, server mode, URL spelling, zero-range "
            "policy, fault kinds fired x request role, outcome classes); "
            "non-trivial = at least one HTTP fetch compared with local bytes")
    assumptions = [
        "deep layout is served with the documented nginx rule set, flat "
        "gzip datasets with gzip_static, everything else by a plain static "
        "server; sharded data without Content-Encoding, with Range support",
        "a zero-length range (bytes=N-(N-1)) is answered per run as 200-full, "
        "416 or 206-empty (servers differ; the reader emits it for empty "
        "entries)",
        "a 404 means absence: on a shard HEAD probe it yields the same error "
        "as a never-stored chunk (class recorded, not judged)",
        "for never-stored positions of sharded datasets -- and for stored "
        "zero-byte entries, which are indistinguishable from the writer's "
        "gap-fill entries and are read with a zero-length range -- the HTTP "
        "accessor may raise or return exactly what the local accessor "
        "returns",
        "info with mixed sharded/unsharded scales is not generated",
        "bounded recovery: once the faults stop, an accessor that was built "
        "fault-free must read a stored chunk again ('everything stored "
        "earlier remains readable'); for accessors built while faults were "
        "flowing (which may legitimately have been dispatched to the plain "
        "reader) recovery is only recorded",
    ]
    components = {
        "real": ["http_accessor", "sharded_http_accessor", "sharded_base "
                 "(reader)", "accessor.get_accessor_for_url", "requests "
                 "(Session, prepare, raise_for_status, content)", "urllib3 "
                 "HTTPResponse (gzip decoding, enforce_content_length)",
                 "local writers/readers used to build and compare"],
        "simulated": ["HTTP transport adapter", "static web server model "
                      "(nginx rules, Range)", "raw file I/O (SimFS)"],
    }
    tiers = {"quick": dict(runs=4000, budget=60),
             "thorough": dict(runs=40000, budget=720)}
    expected_probes = ["sharded_fetch_ok", "legacy_pair_read", "gz_served",
                      "partial_206", "deep_alias", "absent_plain_dae",
                      "fault_on_head", "fault_on_shard_index",
                      "fault_on_data_range", "fault_on_info",
                      "recovered_after_fault"]

    def setup_worker(self):
        from sim import simenv, simfs, simhttp, simproc
        simfs.install()
        simproc.install()
        simenv.install_clock()
        simhttp.install()

    # ------------------------------------------------------------------
    def gen(self, rng, tier, idx):
        from sim import shardeng
        kind = rng.choice(["flat", "deep", "sharded", "sharded",
                           "sharded_legacy", "sharded_mixed"])
        scn = {"kind": kind, "url": rng.choice(URLS),
               "two_scales": rng.random() < 0.5,
               "zero_range": rng.choice(["200", "416", "206"]),
               "gzip": rng.random() < 0.5,
               "with_info": rng.random() < 0.9}
        if kind.startswith("sharded"):
            while True:
                sh = shardeng.gen_scenario(rng, "quick")
                if not sh["scenario"].get("huge"):
                    break       # this check visits every grid position
            sh["scenario"]["mode"] = "bytes"
            scn["shard"] = sh["scenario"]
            scn["shard"]["bits"][0] = min(scn["shard"]["bits"][0], 8)
            chunks = [c[:3] + [c[3] if sh["scenario"]["mode"] == "bytes"
                               else c[3], c[4]] for c in sh["chunks"]]
            scn["chunks"] = chunks[:40]
            scn["order"] = rng.sample(range(len(scn["chunks"])),
                                      len(scn["chunks"]))
        else:
            n = rng.randint(1, 8)
            scn["chunks"] = [[rng.randrange(3), rng.randrange(3),
                              rng.randrange(2),
                              rng.choice([0, 1, 100, 3000, 20000]),
                              rng.randrange(1 << 30)] for _ in range(n)]
            # unique positions
            seen = {}
            for c in scn["chunks"]:
                seen[tuple(c[:3])] = c
            scn["chunks"] = [seen[k] for k in sorted(seen)]
        faults = None
        if rng.random() < 0.6:
            from sim.simhttp import FAULT_KINDS
            nf = rng.choice([1, 1, 2, 3])
            faults = {"seed": rng.randrange(1 << 30), "n": nf,
                      "kinds": rng.sample(FAULT_KINDS,
                                          rng.randint(1, len(FAULT_KINDS))),
                      # fresh: accessor built inside the fault window;
                      # cold: built fault-free just before, shards not yet
                      # opened; warm: the long-lived accessor of the run
                      "mode": rng.choice(["fresh", "fresh", "cold", "cold",
                                          "warm"])}
        return {"scenario": scn, "faults": faults}

    # ------------------------------------------------------------------
    def _build(self, scn, fs, log):
        """Write the dataset with the real writers.  Returns
        (info or None, positions -> coords, stored {pos: bytes})."""
        import json
        from sim import shardeng
        from sim.simfs import mounted
        from neuroglancer_scripts.accessor import get_accessor_for_url
        from neuroglancer_scripts.sharded_file_accessor import (
            ShardedFileAccessor)
        stored = {}
        with mounted(fs):
            if scn["kind"].startswith("sharded"):
                sh = dict(scn["shard"], two_scales=False)
                info = shardeng.make_info(sh)
                fs.put(DS + "/info", json.dumps(info).encode())
                keys = [shardeng.KEY]
                if scn.get("two_scales"):
                    # a second scale with the same grid and sharding: the
                    # same shard numbers / file names under another key
                    import copy
                    s2 = copy.deepcopy(info["scales"][0])
                    s2["key"] = "s1"
                    info["scales"].append(s2)
                    keys.append("s1")
                    fs.put(DS + "/info", json.dumps(info).encode())
                acc = ShardedFileAccessor(DS, strategy="in memory")
                for ki, key in enumerate(keys):
                    for i in scn["order"]:
                        x, y, z, nb, seed = scn["chunks"][i]
                        buf = payload(seed + 7919 * ki, nb)
                        acc.store_chunk(buf, key,
                                        shardeng.coords(sh, (x, y, z)))
                        stored[(key, (x, y, z))] = buf
                acc.close()
                if scn["kind"] in ("sharded_legacy", "sharded_mixed"):
                    from sim.simhttp import to_legacy
                    to_legacy(fs, DS, {k: sh["bits"][0] for k in keys},
                              every=2 if scn["kind"] == "sharded_mixed"
                              else 1)
                grid = sh["grid"]
                positions = {
                    (key, p): shardeng.coords(sh, p) for key in keys
                    for p in itertools.product(*[range(g) for g in grid])}
                return info, positions, stored
            info = {"type": "image", "data_type": "uint8", "num_channels": 1,
                    "scales": [{"key": "k", "size": [12, 12, 8],
                                "chunk_sizes": [[4, 4, 4]],
                                "encoding": "raw", "resolution": [1, 1, 1],
                                "voxel_offset": [0, 0, 0]}]}
            acc = get_accessor_for_url(
                DS, {"flat": scn["kind"] == "flat", "gzip": scn["gzip"]})
            if scn["with_info"]:
                acc.store_file("info", json.dumps(info).encode(),
                               mime_type="application/json")
            keys = ["k"]
            if scn.get("two_scales"):
                import copy
                s2 = copy.deepcopy(info["scales"][0])
                s2["key"] = "k2"
                info["scales"].append(s2)
                keys.append("k2")
                if scn["with_info"]:
                    acc.store_file("info", json.dumps(info).encode(),
                                   mime_type="application/json",
                                   overwrite=True)
            positions = {(key, (x, y, z)): (4 * x, 4 * x + 4, 4 * y,
                                            4 * y + 4, 4 * z, 4 * z + 4)
                         for key in keys for x in range(3)
                         for y in range(3) for z in range(2)}
            for ki, key in enumerate(keys):
                for x, y, z, nb, seed in scn["chunks"]:
                    buf = payload(seed + 7919 * ki, nb)
                    acc.store_chunk(buf, key, positions[(key, (x, y, z))])
                    stored[(key, (x, y, z))] = buf
            return (info if scn["with_info"] else None), positions, stored

    def execute(self, trace):
        import json
        import random
        from sim.simfs import SimFS, mounted
        from sim.simhttp import SimServer, serving
        from neuroglancer_scripts.accessor import (DataAccessError,
                                                   get_accessor_for_url)
        scn = trace["scenario"]
        res = Result()
        log = EventLog()
        fs = SimFS(log=log)
        fs.dirs["/simfs/srv"] = True
        fs.dirs[DS] = True
        info, positions, stored = self._build(scn, fs, log)
        sharded = scn["kind"].startswith("sharded")
        if scn["kind"] == "deep":
            mode = "nginx"
        elif scn["kind"] == "flat" and scn["gzip"]:
            mode = "gzstatic"
        else:
            mode = "plain"
        server = SimServer(fs, DS, "/ds/", mode, scn["zero_range"], log)
        flags = set()
        compared = 0
        outcomes = set()
        with mounted(fs), serving(server):
            local = get_accessor_for_url(DS)
            # ---------- dispatch ------------------------------------------
            st, acc = sut(get_accessor_for_url, scn["url"])
            if st == "exc":
                res.violate("C14/open", f"get_accessor_for_url("
                            f"{scn['url']}) raised {acc!r}",
                            key=f"C14/open/{excname(acc)}")
                return self._fin(res, log, fs, server, scn, flags, outcomes,
                                 0)
            is_sh = type(acc).__name__ == "ShardedHttpAccessor"
            if is_sh != sharded:
                res.violate("C14/dispatch",
                            f"info {'declares' if sharded else 'does not declare'}"
                            f" sharding but {scn['url']} was dispatched to "
                            f"{type(acc).__name__}")
                return self._fin(res, log, fs, server, scn, flags, outcomes,
                                 0)
            # ---------- info ------------------------------------------------
            if info is not None:
                s1, a = sut(acc.fetch_file, "info")
                s2, b = sut(local.fetch_file, "info")
                compared += 1
                if s1 == "exc" or s2 == "exc" or a != b:
                    res.violate("C14/info-differs", "info over HTTP "
                                f"({s1}:{a!r:.60}) != local ({s2}:{b!r:.60})")
            else:
                s1, a = sut(acc.fetch_file, "info")
                if s1 == "ok":
                    res.violate("C14/absent-data", "missing info fetched as "
                                f"{len(a)} B")
                elif not isinstance(a, DataAccessError):
                    res.violate("C14/absent-class", "missing info raised "
                                f"{excname(a)}")
            plist = sorted(positions)
            if len(plist) > 60:
                keep = set(stored)
                others = [p for p in plist if p not in keep]
                step = max(1, len(others) // 20)
                plist = sorted(keep | set(others[::step]))
            if scn.get("two_scales"):
                # alternate between the scales (same shard numbers)
                half = len(plist) // 2
                a, b = plist[:half], plist[half:]
                plist = [q for pair in zip(a, b) for q in pair] + (
                    a[len(b):] + b[len(a):])
            faults = trace["faults"]
            frng = random.Random(faults["seed"]) if faults else None
            for p in plist:
                if res.violations:
                    break
                key = p[0]
                co = positions[p]
                s2, want = sut(local.fetch_chunk, key, co)
                if faults is None:
                    # ---------- class 1: fault-free equivalence -----------
                    s1, got = sut(acc.fetch_chunk, key, co)
                    # a stored zero-byte entry is indistinguishable from a
                    # gap-fill entry and is read with a zero-length range,
                    # whose answer is server-defined: judged as never-stored
                    really = p in stored and (len(stored[p]) > 0
                                              or not sharded)
                    self._judge_clean(res, scn, p, really, s1, got, s2,
                                      want, sharded, outcomes)
                    if really:
                        compared += 1
                    continue
                # ---------- class 2: fault sequences -----------------------
                a2 = acc
                mode = faults.get("mode", "fresh")
                if mode == "cold":
                    s0, a2 = sut(get_accessor_for_url, scn["url"])
                    if s0 == "exc":
                        res.violate("C14/open", f"reopen raised {a2!r}",
                                    key=f"C14/open/{excname(a2)}")
                        break
                server.begin_window(record=True)
                if mode == "fresh":
                    # learn the request list of a fresh accessor + fetch
                    s0, a2 = sut(get_accessor_for_url, scn["url"])
                    if s0 == "exc":
                        res.violate("C14/open", f"reopen raised {a2!r}",
                                    key=f"C14/open/{excname(a2)}")
                        break
                sut(a2.fetch_chunk, key, co)
                reqs = list(server.requests)
                server.end_window()
                if mode == "cold":
                    # a second, equally cold accessor for the faulty attempt
                    s0, a2 = sut(get_accessor_for_url, scn["url"])
                    if s0 == "exc":
                        break
                if not reqs:
                    continue
                plan = {}
                for _ in range(faults["n"]):
                    k, method, path, rng_hdr = frng.choice(reqs)
                    plan[k] = (frng.choice(faults["kinds"]),)
                server.begin_window(plan, record=True)
                fired_before = dict(server.fired)
                if mode == "fresh":
                    s0, a2 = sut(get_accessor_for_url, scn["url"])
                    first_info_clean = 0 not in plan
                    if (s0 == "ok" and first_info_clean and info is not None
                            and (type(a2).__name__ == "ShardedHttpAccessor")
                            != sharded):
                        # the first download of info went through untouched,
                        # so the dispatch decision was made on the real info:
                        # a later failure must surface, not change the kind
                        # of accessor that is returned
                        res.violate(
                            "C14/dispatch",
                            f"{scn['kind']}: info was fetched intact and "
                            f"{'declares' if sharded else 'does not declare'}"
                            f" sharding, yet with faults "
                            f"{ {k: plan[k][0] for k in sorted(plan)} } "
                            f"{scn['url']} was dispatched to "
                            f"{type(a2).__name__}",
                            key=f"C14/dispatch-under-faults/{scn['kind']}")
                        break
                    if s0 == "exc":
                        s1, got = "exc", a2
                    else:
                        s1, got = sut(a2.fetch_chunk, key, co)
                else:
                    s1, got = sut(a2.fetch_chunk, key, co)
                server.end_window()
                fired = {k: n - fired_before.get(k, 0)
                         for k, n in server.fired.items()
                         if n - fired_before.get(k, 0) > 0}
                if not fired:
                    continue
                for k in sorted(plan):
                    role = self._role(reqs, k)
                    flags.add(plan[k][0].split(":")[0] + "@" + role)
                    res.probe("fault_on_" + role)
                where = (f"{scn['kind']} chunk {p} with faults "
                         f"{ {k: plan[k][0] for k in sorted(plan)} } on "
                         f"requests {[(r[1], r[2], r[3]) for r in reqs if r[0] in plan]}")
                if s1 == "ok":
                    compared += 1
                    outcomes.add("ok")
                    if not (s2 == "ok" and got == want) and not (
                            sharded and p not in stored and s2 == "ok"
                            and got == want):
                        res.violate(
                            "C14/fault-returns-data",
                            f"{where}: returned {len(got)} B that are not "
                            "the local bytes "
                            f"({'%d B' % len(want) if s2 == 'ok' else 'local raises'})",
                            key=f"C14/fault-returns-data/{scn['kind']}/"
                            + "+".join(sorted(fired)))
                else:
                    outcomes.add(excname(got))
                    if not sharded and not isinstance(got, DataAccessError):
                        res.violate(
                            "C14/fault-class-plain",
                            f"{where}: raised {excname(got)}, not "
                            "DataAccessError",
                            key=f"C14/fault-class-plain/{excname(got)}")
                    elif sharded and not isinstance(
                            got, (DataAccessError, OSError)) and not (
                                self._absence(plan, got, p in stored
                                              and len(stored[p]) > 0)):
                        res.violate(
                            "C14/fault-class-sharded",
                            f"{where}: raised {excname(got)}: {got!s:.80}, "
                            "not a data-access / I/O error",
                            key=f"C14/fault-class-sharded/{excname(got)}/"
                            + "+".join(sorted(fired)))
                # bounded recovery (recorded only)
                if not hasattr(a2, "fetch_chunk"):
                    res.probe("not_recovered_after_fault")
                    continue
                s3, again = sut(a2.fetch_chunk, key, co)
                if s3 == "ok" and s2 == "ok" and again == want:
                    res.probe("recovered_after_fault")
                elif s3 == "ok" and not (s2 == "ok" and again == want):
                    res.violate("C14/fault-returns-data",
                                f"{where}: retry on the same accessor "
                                f"returned {len(again)} B that are not the "
                                "local bytes",
                                key=f"C14/retry-returns-data/{scn['kind']}")
                else:
                    res.probe("not_recovered_after_fault")
                    if (mode != "fresh" and p in stored
                            and len(stored[p]) > 0 and s2 == "ok"):
                        # the accessor was built fault-free, the faults have
                        # stopped, the chunk is stored: "everything stored
                        # earlier remains readable"
                        res.violate(
                            "C14/not-readable-after-faults",
                            f"{where}: once the faults stopped, the same "
                            f"accessor still cannot read the stored chunk: "
                            f"{excname(again)}: {again!s:.80}",
                            key=f"C14/not-readable-after-faults/"
                            f"{scn['kind']}/{excname(again)}")
                # whatever happened, the accessor must not have been left in
                # a state where later reads return wrong data: info and one
                # other chunk through the same (possibly half-failed) handle
                s4, inf = sut(a2.fetch_file, "info")
                s5, linf = sut(local.fetch_file, "info")
                if s4 == "ok" and not (s5 == "ok" and inf == linf):
                    res.violate("C14/fault-returns-data",
                                f"{where}: a later fetch_file('info') on the "
                                f"same accessor returned {len(inf)} B that "
                                "are not the local info",
                                key=f"C14/after-fault-info/{scn['kind']}")
                others = [q for q in plist if q != p and q in stored
                          and len(stored[q]) > 0]
                if others and not res.violations:
                    q = others[(plist.index(p) * 7) % len(others)]
                    s6, oth = sut(a2.fetch_chunk, q[0], positions[q])
                    if s6 == "ok" and oth != stored[q]:
                        res.violate("C14/fault-returns-data",
                                    f"{where}: a later fetch of chunk {q} on "
                                    f"the same accessor returned {len(oth)} "
                                    "B that are not the stored bytes",
                                    key=f"C14/after-fault-chunk/{scn['kind']}")
        return self._fin(res, log, fs, server, scn, flags, outcomes, compared)

    def _absence(self, plan, exc, was_stored):
        """404 (genuine or injected) means absence; the sharded reader then
        fails like for a never-stored chunk -- class not judged."""
        return (not was_stored) or any(a[0] == "status:404"
                                       for a in plan.values())

    def _role(self, reqs, k):
        r = next((r for r in reqs if r[0] == k), None)
        if r is None:
            return "none"
        _k, method, path, rng = r
        if path.endswith("/info"):
            return "info"
        if method == "HEAD":
            return "head"
        if rng and rng.startswith("bytes=0-") and (
                path.endswith(".shard") or path.endswith(".index")):
            return "shard_index"
        if rng:
            return "data_range"
        return "plain_get"

    def _judge_clean(self, res, scn, p, is_stored, s1, got, s2, want, sharded,
                     outcomes):
        from neuroglancer_scripts.accessor import DataAccessError
        if is_stored:
            if s2 == "exc":
                # local reading of stored data failing is C05/C12's subject
                return
            if s1 == "exc":
                res.violate("C14/stored-fetch-fails",
                            f"{scn['kind']} chunk {p}: HTTP fetch raised "
                            f"{got!r:.160} while the local accessor returns "
                            f"{len(want)} B",
                            key=f"C14/stored-fetch-fails/{scn['kind']}/"
                            f"{excname(got)}")
            elif got != want:
                res.violate("C14/bytes-differ",
                            f"{scn['kind']} chunk {p}: {len(got)} B over "
                            f"HTTP != {len(want)} B locally",
                            key=f"C14/bytes-differ/{scn['kind']}")
            else:
                outcomes.add("ok")
                if sharded:
                    res.probe("sharded_fetch_ok")
                    if scn["kind"] in ("sharded_legacy", "sharded_mixed"):
                        res.probe("legacy_pair_read")
            return
        # never stored
        if s1 == "ok":
            if sharded and s2 == "ok" and got == want:
                outcomes.add("absent-empty")
                return
            res.violate("C14/absent-data",
                        f"{scn['kind']} never-stored chunk {p} fetched over "
                        f"HTTP as {len(got)} B",
                        key=f"C14/absent-data/{scn['kind']}")
        elif not sharded:
            if isinstance(got, DataAccessError):
                res.probe("absent_plain_dae")
            else:
                res.violate("C14/absent-class",
                            f"plain never-stored chunk {p}: raised "
                            f"{excname(got)}, not DataAccessError")
        else:
            outcomes.add("absent-" + excname(got))

    def _fin(self, res, log, fs, server, scn, flags, outcomes, compared):
        log.add("END", server.total)
        res.digest = log.digest()
        res.steps = fs.total_calls + server.total
        for k, n in server.fired.items():
            res.fault(k, n)
        if server.mode in ("nginx", "gzstatic") and scn.get("gzip"):
            res.probe("gz_served")
        if server.mode == "nginx":
            res.probe("deep_alias")
        if scn["kind"].startswith("sharded") and compared:
            res.probe("partial_206")
        res.nontrivial = compared > 0
        res.sig = "|".join([scn["kind"], server.mode,
                            str(URLS.index(scn["url"])), scn["zero_range"],
                            ",".join(sorted(flags)),
                            ",".join(sorted(outcomes))])
        res.info = {"compared": compared, "requests": server.total}
        return res

    def shrink(self, trace):
        scn, faults = trace["scenario"], trace["faults"]
        if faults and faults["n"] > 1:
            yield {"scenario": scn, "faults": dict(faults, n=faults["n"] - 1)}
        if faults and len(faults["kinds"]) > 1:
            for j in range(len(faults["kinds"])):
                yield {"scenario": scn, "faults": dict(
                    faults, kinds=faults["kinds"][:j]
                    + faults["kinds"][j + 1:])}
        ch = scn["chunks"]
        if len(ch) > 1:
            for cand in core.ddmin_candidates(list(range(len(ch)))):
                if not cand:
                    continue
                s2 = dict(scn, chunks=[ch[i] for i in cand])
                if "order" in scn:
                    remap = {o: n for n, o in enumerate(cand)}
                    s2["order"] = [remap[i] for i in scn["order"]
                                   if i in remap]
                yield {"scenario": s2, "faults": faults}
        if scn["url"] != URLS[1]:
            yield {"scenario": dict(scn, url=URLS[1]), "faults": faults}


if __name__ == "__main__":
    sys.exit(core.main(C14(), os.path.abspath(__file__)))
