#!/venv/bin/python
"""C15 -- slice stacks are assembled with the requested anatomical
orientation, for all 48 codes, whatever the directory enumeration order.

The real slice converter runs as a simulated process; slice images are real
PNG files in a real scratch directory (scikit-image needs real files) whose
**enumeration order is a seeded permutation**; output goes to SimFS.  The
oracle is an index-mapping reference written from the statement.
DESIGN.md section 5 (C15)."""
import os
import shutil
import sys
import tempfile

sys.path.insert(0, os.path.dirname(os.path.dirname(os.path.abspath(__file__))))
from sim import core  # noqa: E402
from sim.core import Check, EventLog, Result  # noqa: E402

DS = "/simfs/ds"
CODES = ["".join(p) for t in
         [(a, b, c) for a in "LR" for b in "AP" for c in "IS"]
         for p in __import__("itertools").permutations(t)]
AXIS = {"R": 0, "L": 0, "A": 1, "P": 1, "S": 2, "I": 2}
POSITIVE = set("RAS")
NAME_STYLES = ["plain", "unpadded", "padded", "prefix_mixed"]


def slice_names(style, n):
    if style == "unpadded":          # lexicographic != numeric
        return [f"s{i + 1}.png" for i in range(n)]
    if style == "padded":
        return [f"slice_{i:04d}.png" for i in range(n)]
    if style == "prefix_mixed":
        return [f"{'abcxyz'[i % 6]}{(i * 7) % 23:02d}_{i}.png"
                for i in range(n)]
    return [f"{i:02d}.png" for i in range(n)]


class C15(Check):
    pid = "C15"
    level = "exploration"
    rule = ("one run = one orientation code (all 48 enumerated round-robin "
            "over the run index), input stack size 1-9 per axis (slice "
            "counts smaller than, equal to and not divisible by the chunk "
            "depth), chunk size 1-8 per axis, grey / RGB / several "
            "directories as channels, uint8/uint16 pixels, storage options, "
            "a file-name style for which lexicographic != numeric order and "
            "a seeded permutation of the directory enumeration; distinct = "
            "distinct (code, slice-axis reversed, partial last group, "
            "channels kind, pixel type, layout, name style, outcome); "
            "non-trivial = the conversion ran and every voxel was compared "
            "with the index-mapping reference")
    assumptions = [
        "slices are ordered by lexicographic (code point) order of their "
        "file names, as the command's help text documents; mixed-case names "
        "are not generated",
        "voxel (x,y,z) in RAS = pixel (column,row,slice) with input axis i "
        "mapped to the anatomical axis named by code letter i, reversed for "
        "L, P, I",
        "the whole stack must convert without error (exit status 0)",
        "slice images are real files on the scratch file system; only their "
        "enumeration order is simulated",
    ]
    components = {
        "real": ["scripts/slices_to_precomputed.main + argparse", "utils."
                 "permute/invert_permutation", "scikit-image/imageio PNG "
                 "reading", "precomputed_io", "accessors", "data_types"],
        "simulated": ["directory enumeration order (os.listdir seam)",
                      "raw file I/O of the output (SimFS)", "process "
                      "lifecycle (SimProc)"],
    }
    tiers = {"quick": dict(runs=2400, budget=70, batch=6),
             "thorough": dict(runs=24000, budget=800, batch=6)}
    expected_probes = ["slice_axis_reversed", "partial_last_group",
                      "single_group", "rgb", "multi_dir", "uint16",
                      "enumeration_permuted", "sharded_dest"]

    def setup_worker(self):
        from sim import simenv, simfs, simproc
        simfs.install()
        simproc.install()
        simenv.install_clock()

    def gen(self, rng, tier, idx):
        code = CODES[idx % 48]
        n = [rng.randint(1, 9) for _ in range(3)]     # (columns, rows, slices)
        chunk = [rng.choice([1, 2, 3, 4, 8]) for _ in range(3)]   # RAS order
        kind = rng.choice(["grey", "grey", "rgb", "multi", "mixed"])
        dest = rng.choice(["flat", "deep", "gz", "sharded"])
        if dest == "sharded":
            c = rng.choice([1, 2, 4, 8])
            chunk = [c, c, c]
        pix = "uint8" if kind in ("rgb", "mixed") else rng.choice(
            ["uint8", "uint16"])
        out = pix if rng.random() < 0.7 else rng.choice(
            ["uint16", "uint32", "float32"]
            if pix == "uint8" else ["uint32", "float32"])
        scn = {"code": code, "n": n, "chunk": chunk, "kind": kind,
               "ndirs": (rng.choice([2, 3]) if kind in ("multi", "mixed")
                         else 1),
               # which directories of a "mixed" stack hold RGB slices
               "rgb_dirs": ([rng.random() < 0.5 for _ in range(3)]
                            if kind == "mixed" else []),
               # directory names: the order GIVEN on the command line is not
               # their lexicographic order
               "dir_names": rng.sample(["a", "b", "c", "Z", "m"], 3),
               "pix": pix, "out": out, "dest": dest,
               "names": rng.choice(NAME_STYLES),
               "perm_seed": rng.randrange(1 << 30),
               "lower_code": rng.random() < 0.2,
               # slices of one stack stored with different pixel types
               "mixed_pix": kind in ("grey", "multi")
               and rng.random() < 0.15,
               # library use: the same file-name lists converted twice (into
               # two datasets) by the public slices_to_raw_chunks()
               "api_twice": rng.random() < 0.15,
               "salt": rng.randrange(100)}
        if scn["mixed_pix"] and scn["out"] == "uint8":
            scn["out"] = "uint16"
        return {"scenario": scn}

    # ------------------------------------------------------------------
    def _pixel_stack(self, scn, d):
        """(slice, row, column[, 3]) array for directory d."""
        import numpy as np
        nc, nr, ns = scn["n"]
        s, r, c = np.meshgrid(np.arange(ns), np.arange(nr), np.arange(nc),
                              indexing="ij")
        base = (c * 7 + r * 31 + s * 101 + d * 53 + scn["salt"])
        if scn["kind"] == "rgb" or (scn["kind"] == "mixed"
                                    and scn["rgb_dirs"][d]):
            v = np.stack([(base + 11 * k) % 251 for k in range(3)], axis=-1)
            return v.astype(np.uint8)
        if scn["pix"] == "uint16" and not scn.get("mixed_pix"):
            return ((base * 257) % 65521).astype(np.uint16)
        if scn["pix"] == "uint16":
            return (base % 251).astype(np.uint16)
        return (base % 251).astype(np.uint8)

    def execute(self, trace):
        scn = trace["scenario"]
        tmp = tempfile.mkdtemp(prefix="verif-c15-", dir=_scratch())
        try:
            return self._execute(scn, tmp)
        finally:
            from sim import simfs
            for d in range(scn["ndirs"]):
                simfs.set_real_listdir_perm(os.path.join(
                    tmp, "dir_" + scn.get("dir_names", ["0", "1", "2"])[d]),
                    None)
            shutil.rmtree(tmp, ignore_errors=True)

    def _execute(self, scn, tmp):
        import json
        import random
        import numpy as np
        import PIL.Image
        from sim import dsutil, simfs, simproc
        from sim.simfs import SimFS, mounted
        from neuroglancer_scripts.scripts import slices_to_precomputed
        res = Result()
        log = EventLog()
        nc, nr, ns = scn["n"]
        code = scn["code"]
        names = slice_names(scn["names"], ns)
        order = sorted(names)           # the documented slice order
        stacks = []
        dirs = []
        for d in range(scn["ndirs"]):
            dpath = os.path.join(tmp, "dir_" + scn.get(
                "dir_names", ["0", "1", "2"])[d])
            os.mkdir(dpath)
            dirs.append(dpath)
            st = self._pixel_stack(scn, d)
            stacks.append(st)
            # slice i of the stack is the file that sorts i-th; files are
            # created in an unrelated (reverse-numeric) order
            for i in reversed(range(ns)):
                img = st[i]
                if scn.get("mixed_pix") and (i * 7 + d) % 3 == 0:
                    # same numbers, other pixel type
                    img = img.astype(np.uint16 if img.dtype == np.uint8
                                     else np.uint8) if int(
                                         img.max()) < 256 else img
                PIL.Image.fromarray(img).save(os.path.join(dpath, order[i]))
            prng = random.Random(scn["perm_seed"] + d)

            def perm(lst, prng=prng):
                lst = list(lst)
                prng.shuffle(lst)
                if lst == sorted(lst) and len(lst) > 1:
                    lst.reverse()
                return lst
            simfs.set_real_listdir_perm(dpath, perm)
        if ns > 1:
            res.probe("enumeration_permuted")
            res.fault("directory_enumeration_permuted", scn["ndirs"])
        # ---- reference volume (C, Z, Y, X) from the statement --------------
        in_sizes = (nc, nr, ns)
        size = [0, 0, 0]
        for i in range(3):
            size[AXIS[code[i]]] = in_sizes[i]
        chans = []
        for st in stacks:
            if st.ndim == 4:
                chans += [st[..., k] for k in range(3)]
            else:
                chans.append(st)
        ref = np.zeros((len(chans), size[2], size[1], size[0]),
                       dtype=np.dtype(scn["out"]))
        X, Y, Z = np.meshgrid(np.arange(size[0]), np.arange(size[1]),
                              np.arange(size[2]), indexing="ij")
        coord = (X, Y, Z)
        idx = [None, None, None]
        for i in range(3):
            a = AXIS[code[i]]
            idx[i] = coord[a] if code[i] in POSITIVE else (
                in_sizes[i] - 1 - coord[a])
        for ci, st in enumerate(chans):
            vals = st[idx[2], idx[1], idx[0]]       # indexed [x, y, z]
            ref[ci] = np.transpose(vals, (2, 1, 0)).astype(ref.dtype)
        # ---- info + run the converter --------------------------------------
        sharding = [1, 1, 0, "raw", "raw"] if scn["dest"] == "sharded" \
            else None
        info = dsutil.make_info(scn["out"], len(chans), [dict(
            key="full", size=size, cs=[scn["chunk"]], encoding="raw",
            sharding=sharding)])
        fs = SimFS(log=log)
        fs.dirs[DS] = True
        fs.put(DS + "/info", dsutil.info_bytes(info))
        argv = ["slices-to-precomputed"] + ["DIR%d" % d
                                            for d in range(len(dirs))]
        argv += [DS, "--input-orientation",
                 code.lower() if scn["lower_code"] else code]
        if scn["dest"] == "flat":
            argv.append("--flat")
        if scn["dest"] in ("flat", "deep"):
            argv.append("--no-gzip")
        log.add("ARGV", argv)
        real_argv = [dirs[int(a[3:])] if a.startswith("DIR") else a
                     for a in argv]
        api = bool(scn.get("api_twice"))
        DS2 = "/simfs/ds2"
        if api:
            fs.dirs[DS2] = True
            fs.put(DS2 + "/info", dsutil.info_bytes(info))

            def twice():
                from pathlib import Path
                lists = [sorted(Path(d_).iterdir()) for d_ in dirs]
                opts = {"flat": scn["dest"] == "flat",
                        "gzip": scn["dest"] == "gz"}
                slices_to_precomputed.slices_to_raw_chunks(
                    lists, DS, code, options=opts)
                slices_to_precomputed.slices_to_raw_chunks(
                    lists, DS2, code, options=opts)
            res.probe("api_twice")
        with mounted(fs):
            if api:
                pr = simproc.run_process(twice, fs=fs)
            else:
                pr = simproc.run_process(slices_to_precomputed.main,
                                         real_argv, fs=fs)
            log.add("EXIT", pr.status, pr.exc, pr.handler_errors)
            slice_axis_rev = code[2] not in POSITIVE
            depth = scn["chunk"][AXIS[code[2]]]
            partial = ns % depth != 0
            where = (f"code {code} stack (cols,rows,slices)={scn['n']} "
                     f"chunk {scn['chunk']} {scn['kind']} x{scn['ndirs']} "
                     f"{scn['pix']}->{scn['out']} dest {scn['dest']} names "
                     f"{scn['names']}")
            compared = 0
            outcome = "ok"
            if pr.status != 0 or pr.handler_errors:
                outcome = "fail:" + str(pr.exc or pr.handler_errors)
                res.violate(
                    "C15/conversion-fails",
                    f"{where}: exit status {pr.status} ({pr.exc}: "
                    f"{pr.exc_obj!s:.120}) {pr.handler_errors}",
                    key=f"C15/conversion-fails/{pr.exc}/"
                    f"{'slice-axis-reversed' if slice_axis_rev else 'fwd'}")
            else:
              for root_ in ([DS, DS2] if api else [DS]):
                if res.violations:
                    break
                data = dsutil.read_dataset(root_, info)
                vol = np.zeros_like(ref)
                for (key, co), g in sorted(data.items(),
                                           key=lambda kv: kv[0]):
                    if g[0] != "ok":
                        res.violate("C15/chunk-missing",
                                    f"{where}: chunk {co} is {g[0]} ({g[1]}) "
                                    "after exit status 0")
                        break
                    xmin, xmax, ymin, ymax, zmin, zmax = co
                    vol[:, zmin:zmax, ymin:ymax, xmin:xmax] = g[1]
                else:
                    compared = ref.size
                    if not np.array_equal(vol, ref):
                        bad = np.argwhere(vol != ref)
                        c_, z_, y_, x_ = (int(v) for v in bad[0])
                        res.violate(
                            "C15/voxel-mapping",
                            f"{where}: {len(bad)}/{ref.size} voxels differ "
                            f"from the index-mapping reference, first at "
                            f"channel {c_} (x,y,z)=({x_},{y_},{z_}): got "
                            f"{vol[c_, z_, y_, x_]} want "
                            f"{ref[c_, z_, y_, x_]}",
                            key="C15/voxel-mapping/" + (
                                "slice-axis-reversed" if slice_axis_rev
                                else "fwd"))
        if slice_axis_rev:
            res.probe("slice_axis_reversed")
        if partial:
            res.probe("partial_last_group")
        if ns <= depth:
            res.probe("single_group")
        if scn["kind"] == "rgb":
            res.probe("rgb")
        if scn["kind"] in ("multi", "mixed"):
            res.probe("multi_dir")
        if scn["kind"] == "mixed" and len(set(scn["rgb_dirs"][
                :scn["ndirs"]])) > 1:
            res.probe("dirs_with_different_channel_counts")
        if scn["pix"] == "uint16":
            res.probe("uint16")
        if scn["dest"] == "sharded":
            res.probe("sharded_dest")
        res.probe("code_" + code)
        res.digest = log.digest()
        res.steps = fs.total_calls
        res.nontrivial = compared > 0
        res.sig = "|".join([code, "rev" if slice_axis_rev else "fwd",
                            "partial" if partial else "full", scn["kind"],
                            scn["pix"], scn["dest"], scn["names"], outcome])
        res.info = {"compared_voxels": compared, "exit": pr.status}
        return res

    def extra_evidence(self, agg):
        codes = sorted(k[5:] for k in agg["probes"] if k.startswith("code_"))
        return {"orientation_codes_covered": len(codes),
                "orientation_codes_enumerated": len(codes) == 48}

    def shrink(self, trace):
        scn = trace["scenario"]
        for k, simple in (("kind", "grey"), ("dest", "flat"),
                          ("names", "plain"), ("pix", "uint8"),
                          ("lower_code", False), ("mixed_pix", False),
                          ("api_twice", False)):
            if scn[k] != simple:
                s2 = dict(scn, **{k: simple})
                if k == "kind":
                    s2["ndirs"] = 1
                if k == "pix":
                    s2["out"] = "uint8"
                if k == "pix" and scn["kind"] == "rgb":
                    continue
                yield {"scenario": s2}
        for d in range(3):
            if scn["n"][d] > 1:
                n = list(scn["n"])
                n[d] -= 1
                yield {"scenario": dict(scn, n=n)}
        for d in range(3):
            if scn["chunk"][d] > 1 and scn["dest"] != "sharded":
                c = list(scn["chunk"])
                c[d] = c[d] // 2
                yield {"scenario": dict(scn, chunk=c)}


def _scratch():
    for d in ("/dev/shm", "/tmp"):
        if os.path.isdir(d) and os.access(d, os.W_OK):
            return d
    return None


if __name__ == "__main__":
    sys.exit(core.main(C15(), os.path.abspath(__file__)))
