#!/venv/bin/python
"""C06 -- each pyramid level equals the whole previous level downscaled once.

The real pyramid driver runs on a simulated FS with **poisoned np.empty**:
the same computation is executed twice under two different poison bytes, so
a voxel that was never written shows up as a difference between the two runs
(uninitialised memory is an environment input a test cannot hold still);
every level is also compared with the global downscale of the level before.
DESIGN.md section 5 (C06)."""
import os
import sys

sys.path.insert(0, os.path.dirname(os.path.dirname(os.path.abspath(__file__))))
from sim import core  # noqa: E402
from sim.core import Check, EventLog, Result, excname, sut  # noqa: E402

DS = "/simfs/ds"
POISONS = [0x3F, 0x41, 0x7B, 0x01]      # valid, non-zero, NaN-free float32


class C06(Check):
    pid = "C06"
    level = "exploration"
    rule = ("one run = one full-resolution description (size, resolution "
            "ratios, target chunk size, max scales, data type, channels, "
            "encoding, layout) expanded by the real "
            "fill_scales_for_dyadic_pyramid; class 'pyramid' runs the real "
            "compute_dyadic_scales from level 0, class 'pair' runs one "
            "generator-made transition k->k+1 through "
            "compute_dyadic_downscaling with level k prepared; both under two "
            "different np.empty poison bytes on two SimFS instances; "
            "distinct = distinct reach signature (class, method, dtype, "
            "layout, chunk-size relation per axis, factors, border/odd "
            "sizes, outcome); non-trivial = at least one level compared with "
            "the global downscale or a loud failure classified")
    assumptions = [
        "the repository's own Downscaler.downscale applied to a whole level "
        "is the definitional operator (its exactness is C07, not claimed)",
        "an exception is an acceptable outcome for a scale pair, except when "
        "the pair satisfies the documented processing assumption (distinct "
        "keys, factors in {1,2} supported by the method, half_chunk >= 1, "
        "new chunk = 1 or 2 half-chunks per axis): then completion is "
        "required",
        "poison bytes are valid, distinct, non-zero values in every data "
        "type (float32 patterns are finite)",
        "sharded layouts only when the generated chunk sizes are cubic",
    ]
    components = {
        "real": ["dyadic_pyramid (fill_scales, compute_dyadic_scales, "
                 "compute_dyadic_downscaling)", "downscaling", "data_types",
                 "precomputed_io", "codecs", "file / sharded accessors"],
        "simulated": ["contents of np.empty in repository modules (SimMem)",
                      "raw file I/O (SimFS)"],
    }
    tiers = {"quick": dict(runs=640, budget=70, batch=8),
             "thorough": dict(runs=40000, budget=800, batch=8)}
    expected_probes = ["levels_compared", "loud_failure", "half_chunk_eq_1",
                      "eighth_octant", "pair_class", "required_completion",
                      "anisotropic", "border_chunk_odd", "sharded_layout",
                      "np_empty_poisoned", "single_chunk_exception_path"]

    def setup_worker(self):
        from sim import simenv, simfs, simproc
        simfs.install()
        simproc.install()
        simenv.install_clock()

    # ------------------------------------------------------------------
    def gen(self, rng, tier, idx):
        cls = rng.choice(["pyramid", "pyramid", "pair"])
        size = [rng.choice([1, 2, 3, 5, 7, 8, 9, 13, 16, 17, 24, 31, 33, 40])
                for _ in range(3)]
        if rng.random() < 0.5:
            size = [rng.randint(1, 40) for _ in range(3)]
        r = rng.random()
        if r < 0.35:
            res = [1.0, 1.0, 1.0]
        elif r < 0.8:
            res = [float(2 ** rng.choice([0, 0, 1, 2, 3, 4, 6]))
                   for _ in range(3)]
        else:
            res = [rng.choice([1.0, 1.5, 3.0, 0.8, 1.2, 2.5, 5.0])
                   for _ in range(3)]
        if rng.random() < 0.3:
            # strongly anisotropic, deep pyramids: the chunk-size schedule of
            # the generator changes shape from level to level here
            res = rng.choice([[1.0, 4.0, 16.0], [1.0, 4.0, 16.0],
                              [1.0, 4.0, 16.0], [1.0, 2.0, 8.0],
                              [1.0, 1.0, 4.0], [1.0, 8.0, 8.0],
                              [1.0, 16.0, 16.0], [1.0, 2.0, 32.0],
                              [1.0, 1.0, 16.0], [1.0, 4.0, 4.0]])
            res = list(res)
            rng.shuffle(res)
            size = [rng.choice([12, 20, 24, 33, 40]) for _ in range(3)]
            cls = rng.choice(["pair", "pair", "pyramid"])
        thin = rng.random() < 0.12
        if thin:
            # thin, strongly anisotropic volumes: a whole axis fits in one new
            # chunk that is wider than two downscaled old chunks would need
            # (the "single chunk" exception of the chunk-size relation)
            perm = [0, 1, 2]
            rng.shuffle(perm)
            res = [0.0, 0.0, 0.0]
            size = [0, 0, 0]
            res[perm[0]], size[perm[0]] = 1.0, rng.choice([17, 33, 40])
            res[perm[1]], size[perm[1]] = 4.0, rng.choice([3, 4, 5, 6])
            res[perm[2]], size[perm[2]] = 16.0, rng.choice([2, 3, 4, 9])
            if rng.random() < 0.3:
                res[perm[2]] = 12.0
            cls = "pair"
        if not thin and rng.random() < 0.06:
            # one-voxel-thick volume whose thin axis has the finest voxels:
            # chunk sizes shrink along an axis that is never downscaled
            d = rng.randrange(3)
            size = [rng.choice([9, 17, 37, 40]) for _ in range(3)]
            size[d] = 1
            res = [1000.0, 1000.0, 1000.0]
            res[d] = rng.choice([500.0, 250.0, 125.0])
        scale = rng.choice([1.0, 1.0, 10.0, 1000.0, 0.5])
        res = [v * scale for v in res]
        method = rng.choice(["average", "average", "majority", "stride"])
        enc = rng.choice(["raw", "raw", "compressed_segmentation"])
        dtype = (rng.choice(["uint32", "uint64"])
                 if enc == "compressed_segmentation"
                 else rng.choice(["uint8", "uint16", "uint32", "uint64",
                                  "float32"]))
        if method == "majority":
            size = [min(s, 16) for s in size]
        p = rng.sample(POISONS, 2)
        target = rng.choice([1, 2, 2, 4, 4, 8, 16])
        if max(res) / min(res) >= 4 and rng.random() < 0.7:
            target = rng.choice([2, 4, 4, 4])
        if thin:
            target = 4
        cap = {1: 10, 2: 20}.get(target)
        if cap:
            size = [min(v, cap) for v in size]
        scn = {"cls": cls, "size": size, "resolution": res,
               "target": target,
               "max_scales": rng.choice([None, None, 2, 3, 5]),
               "method": method, "outside": rng.choice([None, None, 0.0, 9.0]),
               "dtype": dtype, "nchan": rng.choice([1, 1, 2, 3]),
               "enc": enc, "layout": rng.choice(["flat", "deep", "gz",
                                                 "sharded", "sharded"]),
               "pair": rng.randrange(8), "poison": p,
               "labels": rng.choice([0, 3, 40]),
               "salt": rng.randrange(1000)}
        return {"scenario": scn}

    # ------------------------------------------------------------------
    def execute(self, trace):
        import copy
        import numpy as np
        from sim import dsutil, simenv
        from sim.simfs import SimFS, mounted
        from neuroglancer_scripts import (downscaling, dyadic_pyramid,
                                          precomputed_io)
        from neuroglancer_scripts.accessor import get_accessor_for_url
        scn = trace["scenario"]
        res = Result()
        log = EventLog()
        info0 = {"type": "image", "data_type": scn["dtype"],
                 "num_channels": scn["nchan"],
                 "scales": [{"encoding": scn["enc"], "size": scn["size"],
                             "resolution": scn["resolution"],
                             "voxel_offset": [0, 0, 0]}]}
        if scn["enc"] == "compressed_segmentation":
            info0["scales"][0]["compressed_segmentation_block_size"] = [8, 8,
                                                                        8]
        st, info = sut(dyadic_pyramid.fill_scales_for_dyadic_pyramid,
                       copy.deepcopy(info0), scn["target"], scn["max_scales"])
        if st == "exc":
            # metadata generation failing is C08's subject (n/a): vacuous
            res.digest = log.digest()
            res.sig = "gen-fails"
            res.info = {"fill_scales": excname(info)}
            return res
        scales = info["scales"]
        cubic = all(len(set(s["chunk_sizes"][0])) == 1 for s in scales)
        layout = scn["layout"]
        if layout == "sharded" and not cubic:
            layout = "deep"
        if layout == "sharded":
            for s in scales:
                s["sharding"] = {"@type": "neuroglancer_uint64_sharded_v1",
                                 "minishard_bits": 1, "shard_bits": 1,
                                 "preshift_bits": 1, "hash": "identity",
                                 "minishard_index_encoding": "raw",
                                 "data_encoding": "raw"}
            res.probe("sharded_layout")
        keys = [s["key"] for s in scales]
        distinct_keys = len(set(keys)) == len(keys)
        downscaler = downscaling.get_downscaler(
            scn["method"], info, {"outside_value": scn["outside"]})
        if scn["cls"] == "pair":
            # every transition of the generated info on its own, level k
            # prepared by the harness (public compute_dyadic_downscaling)
            if len(scales) < 2:
                res.digest = log.digest()
                res.sig = "single-scale"
                return res
            res.probe("pair_class")
            total = None
            for k in range(len(scales) - 1):
                part = self._transition(scn, info, scales, layout, k, k + 1,
                                        downscaler, distinct_keys, labels_=(
                                            scn["labels"] or None), log=log)
                if total is None:
                    total = part
                else:
                    total.steps += part.steps
                    total.violations += part.violations
                    for kk, n in part.probes.items():
                        total.probe(kk, n)
                    total.nontrivial = total.nontrivial or part.nontrivial
                    total.sig += "/" + part.sig.split("|")[4]
                if total.violations:
                    break
            for kk, n in res.probes.items():
                total.probe(kk, n)
            total.digest = log.digest()
            return total
        part = self._transition(scn, info, scales, layout, 0,
                                len(scales) - 1, downscaler, distinct_keys,
                                labels_=(scn["labels"] or None), log=log)
        for kk, n in res.probes.items():
            part.probe(kk, n)
        part.digest = log.digest()
        return part

    def _transition(self, scn, info, scales, layout, first, last, downscaler,
                    distinct_keys, labels_, log):
        import numpy as np
        from sim import simenv
        from sim.simfs import SimFS, mounted
        from neuroglancer_scripts import dyadic_pyramid, precomputed_io
        from neuroglancer_scripts.accessor import get_accessor_for_url
        res = Result()
        labels = labels_
        lvl = self._level0(scn, scales[first], labels)

        def factors(a, b):
            return [1 if x == y else 2 for x, y in zip(a["size"], b["size"])]

        # ---- independent prediction: must this transition complete? ------
        required = []
        for k in range(first, last):
            a, b = scales[k], scales[k + 1]
            f = factors(a, b)
            ok = distinct_keys
            ok = ok and b["size"] == [-(-x // y) for x, y in zip(a["size"],
                                                                  f)]
            if scn["method"] == "average":
                ok = ok and all(v in (1, 2) for v in f)
            for d in range(3):
                oc, nc = a["chunk_sizes"][0][d], b["chunk_sizes"][0][d]
                if oc % f[d] != 0 or oc // f[d] < 1:
                    ok = False
                    continue
                hc = oc // f[d]
                if nc not in (hc, 2 * hc):
                    ok = False
                    ns_ = b["size"][d]
                    if nc >= ns_ and hc < ns_ <= 2 * hc:
                        res.probe("single_chunk_exception_path")
                if hc == 1:
                    res.probe("half_chunk_eq_1")
            required.append(ok)
        if any(a != b for a, b in zip(scn["resolution"],
                                      scn["resolution"][1:])):
            res.probe("anisotropic")

        # ---- run twice under two poisons ---------------------------------
        outcomes = []
        for pi, poison in enumerate(scn["poison"]):
            fs = SimFS(log=log)
            fs.dirs[DS] = True
            log.add("POISON", poison)
            proxies = simenv.install_poison(poison)
            try:
                with mounted(fs):
                    out = self._run(scn, fs, info, layout, first, last, lvl,
                                    downscaler, precomputed_io,
                                    get_accessor_for_url, dyadic_pyramid)
            finally:
                simenv.install_poison(None)
            if sum(p.empty_calls for p in proxies):
                res.probe("np_empty_poisoned")
                res.fault("poisoned_np_empty_allocation",
                          sum(p.empty_calls for p in proxies))
            out["steps"] = fs.total_calls
            outcomes.append(out)
            log.add("OUT", out["status"], out.get("exc"))
        o1, o2 = outcomes
        res.steps = o1["steps"] + o2["steps"]
        where = (f"size {scn['size']} res {scn['resolution']} target "
                 f"{scn['target']} {scn['method']} {scn['dtype']} "
                 f"c{scn['nchan']} {scn['enc']} {layout}; chunk sizes "
                 f"{[s['chunk_sizes'][0] for s in scales[first:last + 1]]} "
                 f"sizes {[s['size'] for s in scales[first:last + 1]]}")
        compared = 0
        sigparts = []
        if o1["status"] != o2["status"] or o1.get("exc") != o2.get("exc"):
            res.violate("C06/poison-dependent-outcome",
                        f"{where}: outcome depends on uninitialised memory: "
                        f"{o1['status']}/{o1.get('exc')} vs "
                        f"{o2['status']}/{o2.get('exc')}")
        elif o1["status"] == "exc":
            res.probe("loud_failure")
            res.probe("loud_failure_" + o1["exc"])
            sigparts.append("fail:" + o1["exc"])
            kfail = o1["failed_at"]
            if kfail is not None and required[kfail - first]:
                res.violate(
                    "C06/required-pair-fails",
                    f"{where}: transition {kfail}->{kfail + 1} satisfies "
                    "the documented processing assumption but raised "
                    f"{o1['exc']}: {o1['msg']:.120}",
                    key=f"C06/required-pair-fails/{o1['exc']}")
            compared = 1
        else:
            # (A) byte-identical between the two poisons
            for k in range(first + 1, last + 1):
                a1, a2 = o1["levels"][k], o2["levels"][k]
                if a1 is None or a2 is None:
                    res.violate("C06/level-unreadable",
                                f"{where}: level {k} could not be read back "
                                f"after a successful run: "
                                f"{o1['unreadable'].get(k)}",
                                key="C06/level-unreadable")
                    break
                if not np.array_equal(a1, a2):
                    n = int(np.sum(a1 != a2))
                    res.violate("C06/uninitialised-voxels",
                                f"{where}: level {k} differs between the two "
                                f"np.empty poisons in {n}/{a1.size} voxels: "
                                "those voxels were never written")
                    break
            # (B) global downscale of the previous level
            if not res.violations:
                prev = lvl
                for k in range(first + 1, last + 1):
                    f = factors(scales[k - 1], scales[k])
                    st, want = sut(downscaler.downscale, prev, f)
                    if st == "exc":
                        break     # operator undefined here: nothing to say
                    got = o1["levels"][k]
                    compared += 1
                    res.probe("levels_compared")
                    if required[k - 1 - first]:
                        res.probe("required_completion")
                    if got.shape != want.shape or not np.array_equal(
                            got, np.asarray(want).astype(got.dtype)):
                        nbad = (int(np.sum(got != want))
                                if got.shape == want.shape else -1)
                        res.violate(
                            "C06/level-not-global-downscale",
                            f"{where}: level {k} differs from the "
                            f"{scn['method']} downscale of the whole level "
                            f"{k - 1} in {nbad}/{got.size} voxels (factors "
                            f"{f})",
                            key="C06/level-not-global-downscale/"
                            + ("pair" if scn["cls"] == "pair" else "pyramid"))
                        break
                    prev = got
            sigparts.append("ok")
        rel = []
        for k in range(first, last):
            a, b = scales[k]["chunk_sizes"][0], scales[k + 1]["chunk_sizes"][0]
            f = factors(scales[k], scales[k + 1])
            for d in range(3):
                hc = a[d] // f[d] if a[d] // f[d] else 0
                rel.append("z" if hc == 0 else str(b[d] // hc)
                           if b[d] % hc == 0 else "x")
            if all(scales[k + 1]["size"][d] > (a[d] // f[d] or 1)
                   for d in range(3)):
                res.probe("eighth_octant")
            if any(s % 2 for s in scales[k]["size"]):
                res.probe("border_chunk_odd")
        res.digest = log.digest()
        res.nontrivial = compared > 0
        res.sig = "|".join([scn["cls"], scn["method"], scn["dtype"], layout,
                            "".join(rel[:9]), "n%d" % len(scales),
                            "c%d" % scn["nchan"]] + sigparts)
        res.info = {"levels": len(scales), "compared": compared,
                    "status": o1["status"], "exc": o1.get("exc")}
        return res

    def _level0(self, scn, scale, labels):
        from sim import dsutil
        sz = scale["size"]
        return dsutil.voxels(scn["dtype"], scn["nchan"],
                             (0, sz[0], 0, sz[1], 0, sz[2]), scn["salt"],
                             labels)

    def _run(self, scn, fs, info, layout, first, last, lvl, downscaler,
             precomputed_io, get_accessor_for_url, dyadic_pyramid):
        """One complete computation on a fresh FS.  Returns outcome dict."""
        import json
        import numpy as np
        from sim import dsutil
        scales = info["scales"]
        if layout == "sharded":
            from neuroglancer_scripts.sharded_file_accessor import (
                ShardedFileAccessor)
            fs.put(DS + "/info", json.dumps(info).encode())
            nchunks = len(dsutil.chunk_grid(scales[first]["size"],
                                            scales[first]["chunk_sizes"][0]))
            if nchunks <= 200:
                acc = get_accessor_for_url(DS)       # on-disk buffering
            else:
                acc = ShardedFileAccessor(DS, strategy="in memory")
            pio = precomputed_io.get_IO_for_existing_dataset(acc)
        else:
            acc = get_accessor_for_url(DS, {"flat": layout == "flat",
                                            "gzip": layout == "gz"})
            st, pio = sut(precomputed_io.get_IO_for_new_dataset, info, acc)
            if st == "exc":
                return {"status": "exc", "exc": excname(pio), "msg": str(pio),
                        "failed_at": None}
        s = scales[first]
        for co in dsutil.chunk_grid(s["size"], s["chunk_sizes"][0]):
            xmin, xmax, ymin, ymax, zmin, zmax = co
            st, v = sut(pio.write_chunk,
                        np.ascontiguousarray(
                            lvl[:, zmin:zmax, ymin:ymax, xmin:xmax]),
                        s["key"], co)
            if st == "exc":
                return {"status": "exc", "exc": excname(v), "msg": str(v),
                        "failed_at": None}
        if layout == "sharded":
            acc.close()
        failed_at = None
        if scn["cls"] == "pyramid":
            # the driver itself, wrapped per level to learn where it failed
            orig = dyadic_pyramid.compute_dyadic_downscaling
            at = [None]

            def spy(info_, idx, *a, **kw):
                at[0] = idx
                return orig(info_, idx, *a, **kw)
            dyadic_pyramid.compute_dyadic_downscaling = spy
            try:
                st, v = sut(dyadic_pyramid.compute_dyadic_scales, pio,
                            downscaler)
            finally:
                dyadic_pyramid.compute_dyadic_downscaling = orig
            failed_at = at[0]
        else:
            st, v = sut(dyadic_pyramid.compute_dyadic_downscaling, info,
                        first, downscaler, pio, pio)
            failed_at = first
            if st == "ok" and layout == "sharded":
                st, v = sut(acc.close)
        if st == "exc":
            return {"status": "exc", "exc": excname(v), "msg": str(v),
                    "failed_at": failed_at}
        # read every level back through a fresh accessor
        levels = {}
        unreadable = {}
        data = dsutil.read_dataset(
            DS, info, which=[(sc["key"], co) for sc in scales[first + 1:
                                                              last + 1]
                             for co in dsutil.chunk_grid(
                                 sc["size"], sc["chunk_sizes"][0])])
        dt = np.dtype(scn["dtype"])
        for k in range(first + 1, last + 1):
            sc = scales[k]
            sz = sc["size"]
            arr = np.zeros((scn["nchan"], sz[2], sz[1], sz[0]), dtype=dt)
            ok = True
            for co in dsutil.chunk_grid(sz, sc["chunk_sizes"][0]):
                g = data[(sc["key"], co)]
                if g[0] != "ok":
                    ok = False
                    unreadable[k] = (co, g[0], g[1])
                    break
                xmin, xmax, ymin, ymax, zmin, zmax = co
                if g[1].shape != (scn["nchan"], zmax - zmin, ymax - ymin,
                                  xmax - xmin):
                    ok = False
                    unreadable[k] = (co, "shape", g[1].shape)
                    break
                arr[:, zmin:zmax, ymin:ymax, xmin:xmax] = g[1]
            levels[k] = arr if ok else None
        return {"status": "ok", "levels": levels, "unreadable": unreadable}

    def shrink(self, trace):
        scn = trace["scenario"]
        for k, simple in (("nchan", 1), ("layout", "flat"), ("enc", "raw"),
                          ("outside", None), ("labels", 0),
                          ("max_scales", None)):
            if scn[k] != simple and not (k == "enc" and scn["dtype"] not in (
                    "uint32", "uint64")):
                yield {"scenario": dict(scn, **{k: simple})}
        for d in range(3):
            if scn["size"][d] > 1:
                for new in (scn["size"][d] // 2, scn["size"][d] - 1):
                    if new >= 1:
                        sz = list(scn["size"])
                        sz[d] = new
                        yield {"scenario": dict(scn, size=sz)}


if __name__ == "__main__":
    sys.exit(core.main(C06(), os.path.abspath(__file__)))
