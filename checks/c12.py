#!/venv/bin/python
"""C12 -- file storage key/value semantics under every layout option.

Seeded store/fetch/exists histories over several accessor handles (one writer
configuration, readers with other configurations) on a simulated FS, checked
operation by operation against a map model, with tree-delta oracles.
DESIGN.md section 5 (C12).
"""
import os
import sys
import zlib

sys.path.insert(0, os.path.dirname(os.path.dirname(os.path.abspath(__file__))))
from sim import core  # noqa: E402
from sim.core import Check, EventLog, Result, excname, payload, sut  # noqa: E402

FILE_NAMES = ["info", "info_fullres.json", "transform.json", "mesh/100:0",
              "mesh/seg.frag", "a/b/c/deep.bin", "x.bin", "notes.txt",
              "pic.jpg", "tile.png", "sub/dir/y.dat"]
SHARDED_NAMES = ["info", "transform.json", "x.bin", "seg:0"]
HOSTILE = ["../x", "a/../../x", "../ds2/info", "..", "../../simfs/x",
           "mesh/../../x", "/simfs/outside/x", "../ds/../x"]
KEYS = {"k0": "application/octet-stream", "k1": "image/jpeg",
        "40um": "application/octet-stream"}
URLS = ["{p}", "file://{p}", "precomputed://{p}", "precomputed://file://{p}",
        "file://localhost{p}", "{p}/"]
SIZES = [0, 1, 100, 5000, 20000]
NO_COMPRESS = {"application/json", "image/jpeg", "image/png"}
DS = "/simfs/ds"
SH = "/simfs/sh"


def mime_of(name):
    if name == "info" or name.endswith(".json") or ":" in name:
        return "application/json"
    if name.endswith(".jpg"):
        return "image/jpeg"
    if name.endswith(".png"):
        return "image/png"
    return "application/octet-stream"


MAGICS = [None, None, None, None, None, None, "gzip_magic", "gzip_stream",
          "jpeg_magic", "zlib_stream", "json_like"]


def content(name_or_mime, seed, n, magic=None):
    """Payload bytes.  ``magic``: contents that *look like* a container
    format the storage layer knows (gzip, JPEG, JSON) although they are just
    the caller's bytes -- storage must return them verbatim."""
    if name_or_mime == "application/json":
        body = payload(seed, max(0, (n - 8) // 2)).hex().encode()
        return b'{"v":"' + body + b'"}'
    data = payload(seed, n)
    if magic == "gzip_magic":
        return b"\x1f\x8b\x08\x00" + data
    if magic == "gzip_stream":
        import gzip
        return gzip.compress(data, 1, mtime=0)
    if magic == "zlib_stream":
        return zlib.compress(data)
    if magic == "jpeg_magic":
        return b"\xff\xd8\xff\xe0" + data
    if magic == "json_like":
        return b'{"a": 1}' + data
    return data


def coords_of(i):
    x, y, z = i % 3, (i // 3) % 3, (i // 9) % 2
    return [x * 4, min(x * 4 + 4, 10), y * 4, min(y * 4 + 4, 10),
            z * 4, min(z * 4 + 4, 6)]


class C12(Check):
    pid = "C12"
    level = "exploration"
    rule = ("one run = one seeded history (<=60 ops) of store/fetch/exists on "
            "files and chunks through several real accessor handles (writer "
            "configuration + readers with other configurations, incl. the "
            "sharded accessor's file methods) on one SimFS; distinct = "
            "distinct reach signature (layout, gzip, op-kind set, "
            "cross-config reads, overwrite refusals, hostile names, payload "
            "size classes, blksize/short-transfer knob); non-trivial = at "
            "least one store and one compared fetch")
    assumptions = [
        "one MIME type per name (a given file is always JSON or always "
        "binary): mixing types under one name makes name and name.gz coexist "
        "and is not 'one storage configuration'",
        "names that are path prefixes of each other or end in .gz are not "
        "generated",
        "stores go through handles with the writer configuration only; reads "
        "go through any configuration",
        "hostile names are those that truly resolve outside the dataset "
        "directory; names containing '..' that resolve inside are not judged",
        "refusal = the call raises, the tree is unchanged and no raw I/O call "
        "touched a path outside the dataset directory",
        "process-level durability model: completed raw writes are durable",
    ]
    components = {
        "real": ["neuroglancer_scripts.file_accessor", "sharded_file_accessor "
                 "(file methods)", "accessor.get_accessor_for_url", "pathlib",
                 "os.makedirs", "gzip.GzipFile", "io.Buffered*"],
        "simulated": ["raw file I/O (SimFS)", "gzip header clock",
                      "atexit registry"],
    }
    tiers = {"quick": dict(runs=12000, budget=60),
             "thorough": dict(runs=120000, budget=720)}
    expected_probes = ["overwrite_refused", "cross_config_read", "gz_valid",
                      "hostile_refused", "absent_fetch", "sharded_file_op",
                      "empty_payload", "benign_short"]

    def setup_worker(self):
        from sim import simfs, simproc, simenv
        simfs.install()
        simproc.install()
        simenv.install_clock()

    # ------------------------------------------------------------------
    def gen(self, rng, tier, idx):
        sc = {
            "flat": rng.random() < 0.5,
            "gzip": rng.random() < 0.6,
            "compresslevel": rng.choice([0, 1, 6, 9]),
            "url": rng.choice(URLS),
            "blksize": rng.choice([512, 4096, 8192, 65536]),
            "short_every": rng.choice([0, 0, 2, 3, 7]),
        }
        nops = rng.randint(3, 60 if tier == "thorough" else 40)
        names = rng.sample(FILE_NAMES, rng.randint(1, 5))
        keys = rng.sample(sorted(KEYS), rng.randint(1, 2))
        nh = 1
        ops = []
        w_hostile = rng.choice([0, 0.05, 0.15])
        w_sharded = rng.choice([0, 0.1, 0.25])
        for _ in range(nops):
            r = rng.random()
            if r < 0.08 and nh < 5:
                same = rng.random() < 0.4
                ops.append({"op": "open", "same": same,
                            "flat": rng.random() < 0.5,
                            "gzip": rng.random() < 0.5,
                            "url": rng.choice(URLS)})
                nh += 1
                continue
            if r < 0.08 + w_hostile and rng.random() < 0.3:
                # a scale key (it comes from the info file, i.e. possibly from
                # a third party) that would place the chunk outside
                on_sh = rng.random() < 0.35
                ops.append({"op": rng.choice(["store_chunk", "fetch_chunk"]),
                            "h": "sh" if on_sh else rng.randrange(nh),
                            "key": rng.choice(["../evil", "/simfs/outside/k"]
                                              if on_sh else
                                              ["../esc", "k0/../../esc",
                                               "/simfs/outside/k", ".."]),
                            "hostile": True, "ci": rng.randrange(6),
                            "n": 10, "ps": rng.randrange(1 << 30),
                            "ow": None})
                continue
            if r < 0.08 + w_hostile:
                ops.append({"op": rng.choice(["store_file", "fetch_file",
                                              "file_exists"]),
                            "h": rng.randrange(nh) if rng.random() < 0.6
                            else "sh",
                            "name": rng.choice(HOSTILE), "hostile": True,
                            "n": 10, "ps": rng.randrange(1 << 30),
                            "ow": rng.random() < 0.5})
                continue
            if r < 0.08 + w_hostile + w_sharded:
                ops.append({"op": rng.choice(["store_file", "fetch_file",
                                              "file_exists"]), "h": "sh",
                            "name": rng.choice(SHARDED_NAMES),
                            "n": rng.choice(SIZES),
                            "ps": rng.randrange(1 << 30),
                            "ow": rng.random() < 0.5})
                continue
            kind = rng.choice(["store_file", "store_file", "fetch_file",
                               "file_exists", "store_chunk", "store_chunk",
                               "fetch_chunk", "fetch_chunk"])
            op = {"op": kind, "h": rng.randrange(nh),
                  "n": rng.choice(SIZES), "ps": rng.randrange(1 << 30),
                  "ow": rng.random() < 0.5, "magic": rng.choice(MAGICS)}
            if kind.endswith("chunk"):
                op["key"] = rng.choice(keys)
                op["ci"] = rng.randrange(6)
                if kind == "store_chunk" and rng.random() < 0.5:
                    op["ow"] = None        # use the default (overwrite)
            else:
                op["name"] = rng.choice(names)
            ops.append(op)
        return {"scenario": sc, "ops": ops}

    # ------------------------------------------------------------------
    def execute(self, trace):
        from sim.simfs import SimFS, mounted
        from neuroglancer_scripts.accessor import (
            DataAccessError, get_accessor_for_url)
        sc = trace["scenario"]
        res = Result()
        log = EventLog()
        fs = SimFS(blksize=sc["blksize"], log=log)
        fs.short_every = sc["short_every"]
        fs.dirs[DS] = True
        wopts = {"flat": sc["flat"], "gzip": sc["gzip"],
                 "compresslevel": sc["compresslevel"]}
        files = {}     # model: name -> bytes
        chunks = {}    # model: (key, ci) -> bytes
        shfiles = {}   # model for the sharded accessor's files
        kinds = set()
        flags = set()
        compared = stores = 0
        with mounted(fs):
            handles = []
            st, acc = sut(get_accessor_for_url,
                          sc["url"].format(p=DS), dict(wopts))
            if st == "exc":
                res.violate("C12/open", f"get_accessor_for_url raised "
                            f"{acc!r} for {sc['url']}")
                return self._fin(res, log, fs, kinds, flags, 0, 0)
            handles.append((acc, True, wopts))
            sh_acc = [None]

            def sharded():
                if sh_acc[0] is None:
                    # an info (as it could be copied from a third party) one
                    # of whose scale keys points outside the dataset
                    import json
                    sharding = {"@type": "neuroglancer_uint64_sharded_v1",
                                "minishard_bits": 0, "shard_bits": 0,
                                "preshift_bits": 0, "hash": "identity",
                                "minishard_index_encoding": "raw",
                                "data_encoding": "raw"}
                    sh_info = json.dumps({
                        "type": "image", "data_type": "uint8",
                        "num_channels": 1, "scales": [
                            {"key": k_, "size": [12, 12, 8],
                             "chunk_sizes": [[4, 4, 4]], "encoding": "raw",
                             "resolution": [1, 1, 1],
                             "voxel_offset": [0, 0, 0],
                             "sharding": dict(sharding)}
                            for k_ in ("ok", "../evil",
                                       "/simfs/outside/k")]}).encode()
                    fs.put(SH + "/info", sh_info)
                    shfiles["info"] = sh_info
                    s, a = sut(get_accessor_for_url, SH,
                               {"sharding": "1,1,0"})
                    if s == "exc":
                        raise core.HarnessError(f"cannot open sharded: {a!r}")
                    sh_acc[0] = a
                return sh_acc[0]

            for i, op in enumerate(trace["ops"]):
                kind = op["op"]
                log.add("OP", i, kind)
                if kind == "open":
                    if op["same"]:
                        o = dict(wopts)
                    else:
                        o = {"flat": op["flat"], "gzip": op["gzip"]}
                    s, a = sut(get_accessor_for_url, op["url"].format(p=DS),
                               dict(o))
                    if s == "exc":
                        res.violate("C12/open", f"op {i}: open raised {a!r}")
                        break
                    handles.append((a, op["same"], o))
                    continue
                is_sh = op["h"] == "sh"
                if is_sh:
                    acc, can_write, base, model = sharded(), True, SH, shfiles
                else:
                    acc, can_write, _o = handles[op["h"] % len(handles)]
                    base, model = DS, files
                if kind.startswith("store") and not can_write:
                    # stores only through the writer configuration
                    acc = handles[0][0]
                before = dict(fs.snapshot())
                fs.confine = base
                fs.outside = []
                if op.get("hostile"):
                    self._hostile(res, fs, acc, op, i, before, is_sh)
                    flags.add("hostile")
                    continue
                kinds.add(kind + ("/sh" if is_sh else ""))
                if is_sh:
                    res.probe("sharded_file_op")
                if kind == "store_file":
                    name = op["name"]
                    mime = mime_of(name)
                    buf = content(mime, op["ps"], op["n"], op.get("magic"))
                    if op.get("magic"):
                        res.probe("magic_payload")
                    s, v = sut(acc.store_file, name, buf, mime_type=mime,
                               overwrite=op["ow"])
                    exists = name in model
                    if exists and not op["ow"]:
                        res.probe("overwrite_refused")
                        flags.add("refuse")
                        if s == "ok":
                            res.violate(
                                "C12/overwrite-refusal",
                                f"op {i}: store_file({name!r}, overwrite="
                                "False) on an existing name returned normally")
                        elif dict(fs.snapshot()) != before:
                            res.violate(
                                "C12/overwrite-untouched",
                                f"op {i}: refused store_file({name!r}) "
                                "changed the tree")
                        continue
                    if s == "exc":
                        res.violate("C12/store-fails",
                                    f"op {i}: fault-free store_file({name!r},"
                                    f" {len(buf)} B) raised {v!r}")
                        continue
                    model[name] = buf
                    stores += 1
                    if not buf:
                        res.probe("empty_payload")
                    gz = (not is_sh) and sc["gzip"] and mime not in NO_COMPRESS
                    self._delta(res, fs, i, before, base + "/" + name, gz, buf)
                elif kind == "fetch_file":
                    name = op["name"]
                    s, v = sut(acc.fetch_file, name)
                    if name in model:
                        compared += 1
                        if not is_sh and not handles[
                                op["h"] % len(handles)][1]:
                            res.probe("cross_config_read")
                            flags.add("xread")
                        if s == "exc":
                            res.violate("C12/fetch-latest",
                                        f"op {i}: fetch_file({name!r}) raised "
                                        f"{v!r} although stored")
                        elif v != model[name]:
                            res.violate("C12/fetch-latest",
                                        f"op {i}: fetch_file({name!r}) "
                                        f"returned {len(v)} B != latest "
                                        f"stored {len(model[name])} B")
                    else:
                        res.probe("absent_fetch")
                        if s == "ok":
                            res.violate("C12/fetch-absent",
                                        f"op {i}: fetch_file({name!r}) of a "
                                        f"never-stored name returned "
                                        f"{len(v)} B")
                        elif not is_sh and not isinstance(v, DataAccessError):
                            res.violate("C12/fetch-absent-class",
                                        f"op {i}: fetch_file({name!r}) absent "
                                        f"raised {excname(v)}, not "
                                        "DataAccessError")
                    self._unchanged(res, fs, i, before, kind)
                elif kind == "file_exists":
                    name = op["name"]
                    s, v = sut(acc.file_exists, name)
                    compared += 1
                    if s == "exc":
                        res.violate("C12/exists", f"op {i}: file_exists("
                                    f"{name!r}) raised {v!r}")
                    elif bool(v) != (name in model):
                        res.violate("C12/exists", f"op {i}: file_exists("
                                    f"{name!r}) = {v}, model says "
                                    f"{name in model}")
                    self._unchanged(res, fs, i, before, kind)
                elif kind == "store_chunk":
                    key, ci = op["key"], op["ci"]
                    mime = KEYS[key]
                    co = tuple(coords_of(ci))
                    buf = content(mime, op["ps"], op["n"], op.get("magic"))
                    if op.get("magic"):
                        res.probe("magic_payload")
                    kw = {"mime_type": mime}
                    if op["ow"] is not None:
                        kw["overwrite"] = op["ow"]
                    s, v = sut(acc.store_chunk, buf, key, co, **kw)
                    if (key, ci) in chunks and op["ow"] is False:
                        res.probe("overwrite_refused")
                        flags.add("refuse")
                        if s == "ok":
                            res.violate("C12/overwrite-refusal",
                                        f"op {i}: store_chunk({key},{co}, "
                                        "overwrite=False) on an existing "
                                        "chunk returned normally")
                        elif dict(fs.snapshot()) != before:
                            res.violate("C12/overwrite-untouched",
                                        f"op {i}: refused store_chunk changed "
                                        "the tree")
                        continue
                    if s == "exc":
                        res.violate("C12/store-fails",
                                    f"op {i}: fault-free store_chunk({key},"
                                    f"{co},{len(buf)} B) raised {v!r}")
                        continue
                    chunks[(key, ci)] = buf
                    stores += 1
                    if not buf:
                        res.probe("empty_payload")
                    if sc["flat"]:
                        rel = "{}/{}-{}_{}-{}_{}-{}".format(key, *co)
                    else:
                        rel = "{}/{}-{}/{}-{}/{}-{}".format(key, *co)
                    gz = sc["gzip"] and mime not in NO_COMPRESS
                    self._delta(res, fs, i, before, DS + "/" + rel, gz, buf)
                elif kind == "fetch_chunk":
                    key, ci = op["key"], op["ci"]
                    co = tuple(coords_of(ci))
                    s, v = sut(acc.fetch_chunk, key, co)
                    if (key, ci) in chunks:
                        compared += 1
                        if not handles[op["h"] % len(handles)][1]:
                            res.probe("cross_config_read")
                            flags.add("xread")
                        if s == "exc":
                            res.violate("C12/fetch-latest",
                                        f"op {i}: fetch_chunk({key},{co}) "
                                        f"raised {v!r} although stored")
                        elif v != chunks[(key, ci)]:
                            res.violate("C12/fetch-latest",
                                        f"op {i}: fetch_chunk({key},{co}) "
                                        f"returned {len(v)} B != latest "
                                        f"stored {len(chunks[(key, ci)])} B")
                    else:
                        res.probe("absent_fetch")
                        if s == "ok":
                            res.violate("C12/fetch-absent",
                                        f"op {i}: fetch_chunk({key},{co}) of "
                                        "a never-stored chunk returned "
                                        f"{len(v)} B")
                        elif not isinstance(v, DataAccessError):
                            res.violate("C12/fetch-absent-class",
                                        f"op {i}: fetch_chunk absent raised "
                                        f"{excname(v)}, not DataAccessError")
                    self._unchanged(res, fs, i, before, kind)
                if res.violations:
                    break
        return self._fin(res, log, fs, kinds, flags, stores, compared,
                         sc=sc)

    # ------------------------------------------------------------------
    def _fin(self, res, log, fs, kinds, flags, stores, compared, sc=None):
        log.add("TREE", fs.tree_hash())
        res.digest = log.digest()
        res.steps = fs.total_calls
        for k, n in fs.fired.items():
            res.fault(k, n)
            if k.startswith("benign_short"):
                res.probe("benign_short", n)
        res.nontrivial = stores > 0 and compared > 0
        if sc is not None:
            res.sig = "|".join([
                "flat" if sc["flat"] else "deep",
                "gz" if sc["gzip"] else "plain",
                "b%d" % sc["blksize"], "s%d" % sc["short_every"],
                ",".join(sorted(kinds)), ",".join(sorted(flags))])
        res.info = {"stores": stores, "compared": compared,
                    "raw_calls": fs.total_calls}
        return res

    def _unchanged(self, res, fs, i, before, kind):
        if dict(fs.snapshot()) != before:
            res.violate("C12/read-modifies", f"op {i}: {kind} changed the "
                        "stored tree")

    def _delta(self, res, fs, i, before, path, gz, buf):
        """After a successful store: exactly the documented path changed."""
        after = dict(fs.snapshot())
        want = path + (".gz" if gz else "")
        changed = sorted(p for p in after
                         if after[p] != "d" and before.get(p) != after[p])
        removed = sorted(p for p in before if p not in after)
        if [p for p in changed if p != want] or removed or want not in after:
            res.violate("C12/documented-path",
                        f"op {i}: store should have written exactly {want}; "
                        f"changed={changed} removed={removed}")
            return
        newdirs = sorted(p for p in after
                         if after[p] == "d" and p not in before)
        for d in newdirs:
            if not want.startswith(d + "/"):
                res.violate("C12/documented-path",
                            f"op {i}: stray directory {d}")
                return
        data = after[want]
        if gz:
            try:
                d = zlib.decompressobj(31)
                out = d.decompress(data) + d.flush()
                ok = d.eof and d.unused_data == b""
            except zlib.error as e:
                out, ok = repr(e), False
            if not ok or out != buf:
                res.violate("C12/gzip-valid",
                            f"op {i}: {want} is not a valid single-member "
                            "gzip stream inflating to the payload")
            else:
                res.probe("gz_valid")
        elif data != buf:
            res.violate("C12/documented-path",
                        f"op {i}: {want} does not hold the stored bytes")

    def _hostile(self, res, fs, acc, op, i, before, is_sh):
        name = op.get("name", op.get("key"))
        kind = op["op"]
        if kind == "store_chunk" and is_sh:
            def store_and_flush():
                acc.store_chunk(payload(op["ps"], 64), name, (0, 4, 0, 4, 0, 4))
                acc.close()
            s, v = sut(store_and_flush)
        elif kind == "fetch_chunk" and is_sh:
            s, v = sut(acc.fetch_chunk, name, (0, 4, 0, 4, 0, 4))
        elif kind == "store_chunk":
            s, v = sut(acc.store_chunk, payload(op["ps"], op["n"]), name,
                       tuple(coords_of(op["ci"])))
        elif kind == "fetch_chunk":
            s, v = sut(acc.fetch_chunk, name, tuple(coords_of(op["ci"])))
        elif kind == "store_file":
            s, v = sut(acc.store_file, name, payload(op["ps"], op["n"]),
                       overwrite=op["ow"])
        elif kind == "fetch_file":
            s, v = sut(acc.fetch_file, name)
        else:
            s, v = sut(acc.file_exists, name)
        which = "sharded" if is_sh else "file"
        key = f"C12/confine-{which}"
        after = dict(fs.snapshot())
        if fs.outside:
            res.violate(key, f"op {i}: {which} accessor {kind}({name!r}) "
                        f"issued raw I/O outside the dataset directory: "
                        f"{fs.outside[:3]}", key=f"{key}/{kind}")
        elif after != before:
            res.violate(key, f"op {i}: {which} accessor {kind}({name!r}) "
                        "changed the tree", key=f"{key}/{kind}")
        elif s == "ok":
            res.violate(key, f"op {i}: {which} accessor {kind}({name!r}) was "
                        f"not refused (returned {v!r:.40})",
                        key=f"{key}/{kind}")
        else:
            res.probe("hostile_refused")

    # ------------------------------------------------------------------
    def shrink(self, trace):
        ops = trace["ops"]
        for cand in core.ddmin_candidates(ops):
            yield {"scenario": trace["scenario"], "ops": cand}
        sc = trace["scenario"]
        for k, simple in (("short_every", 0), ("blksize", 4096),
                          ("url", "{p}"), ("compresslevel", 9)):
            if sc[k] != simple:
                yield {"scenario": dict(sc, **{k: simple}), "ops": ops}
        for j, op in enumerate(ops):
            if op.get("n", 0) > 1:
                yield {"scenario": sc,
                       "ops": ops[:j] + [dict(op, n=1)] + ops[j + 1:]}


if __name__ == "__main__":
    sys.exit(core.main(C12(), os.path.abspath(__file__)))
