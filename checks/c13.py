#!/venv/bin/python
"""C13 -- convert-chunks preserves voxels exactly for lossless targets.

The real ``convert_chunks.main(argv)`` runs as a *simulated process* (exit
handlers run by the simulator) from a local or simulated-HTTP source into
every destination kind; a new simulated process then reads the destination.
DESIGN.md section 5 (C13)."""
import os
import sys

sys.path.insert(0, os.path.dirname(os.path.dirname(os.path.abspath(__file__))))
from sim import core  # noqa: E402
from sim.core import Check, EventLog, Result, excname, sut  # noqa: E402

SRC = "/simfs/srv/ds"
DST = "/simfs/out"
WIDER = {"uint8": ["uint8", "uint16", "uint32", "uint64", "float32"],
         "uint16": ["uint16", "uint32", "uint64", "float32"],
         "uint32": ["uint32", "uint64"],
         "uint64": ["uint64"],
         "float32": ["float32"]}


class C13(Check):
    pid = "C13"
    level = "exploration"
    rule = ("one run = one source dataset (1-3 scales with different chunk "
            "sizes, <=16 voxels per axis, 1-3 channels, raw or "
            "compressed_segmentation, any file layout / sharded / served "
            "over simulated HTTP) converted by the real convert-chunks "
            "main() in a simulated process into a destination (other "
            "lossless encoding, block size, wider data type, layout, "
            "sharding triple; pre-made info or --copy-info), then read back "
            "by a new simulated process; distinct = distinct reach signature "
            "(source kind, destination kind, encodings, dtype pair, "
            "copy-info, #scales, exit handlers run / killed + re-run, two "
            "library calls in one process); non-trivial = "
            "at least one destination chunk decoded and compared")
    assumptions = [
        "destination chunk sizes equal the source's (convert-chunks reads "
        "the source with the destination's chunk coordinates)",
        "only widening (exactly representable) data-type pairs are generated",
        "fault-free class: exit status must be 0 and every destination chunk "
        "must equal the source; kill class (no exit handlers): each "
        "destination chunk is complete-and-correct, absent or unreadable, "
        "never wrong",
        "sharded destination = a destination whose pre-made info declares "
        "sharding (convert-chunks has no --sharding option)",
    ]
    components = {
        "real": ["scripts/convert_chunks.main + argparse", "precomputed_io",
                 "data_types", "codecs", "file / sharded / http accessors",
                 "requests + urllib3"],
        "simulated": ["raw file I/O (SimFS)", "HTTP transport + static "
                      "server", "process lifecycle: atexit handlers, exit "
                      "status, kill (SimProc)"],
    }
    tiers = {"quick": dict(runs=2000, budget=60),
             "thorough": dict(runs=30000, budget=720)}
    expected_probes = ["dest_sharded_flushed_by_exit_handler", "remote_source",
                      "remote_sharded_source", "copy_info", "dtype_widened",
                      "encoding_changed", "killed_before_exit"]

    def setup_worker(self):
        from sim import simenv, simfs, simhttp, simproc
        simfs.install()
        simproc.install()
        simenv.install_clock()
        simhttp.install()

    # ------------------------------------------------------------------
    def gen(self, rng, tier, idx):
        src_kind = rng.choice(["file", "file", "sharded", "http_flat",
                               "http_deep", "http_sharded"])
        dst_kind = rng.choice(["file", "file", "sharded"])
        enc = rng.choice(["raw", "raw", "compressed_segmentation"])
        dtype = (rng.choice(["uint32", "uint64"])
                 if enc == "compressed_segmentation"
                 else rng.choice(["uint8", "uint16", "uint32", "uint64",
                                  "float32"]))
        copy_info = rng.random() < 0.3
        cubic = src_kind in ("sharded", "http_sharded") or (
            dst_kind == "sharded")
        nsc = rng.randint(1, 3)
        scales = []
        for si in range(nsc):
            size = [rng.randint(1, 16) for _ in range(3)]
            if cubic:
                c = rng.choice([2, 3, 4, 8])
                cs = [c, c, c]
            else:
                cs = [rng.choice([1, 2, 3, 4, 8, 16]) for _ in range(3)]
            scales.append({"key": f"{si}um", "size": size, "cs": [cs],
                           "block": rng.choice([[8, 8, 8], [4, 4, 4],
                                                [2, 2, 2], [4, 2, 8]])})
        if copy_info:
            denc, ddtype = enc, dtype
        else:
            ddtype = rng.choice(WIDER[dtype])
            choices = ["raw"]
            if ddtype in ("uint32", "uint64"):
                choices += ["compressed_segmentation"] * 2
            denc = rng.choice(choices)
        scn = {"src_kind": src_kind, "dst_kind": dst_kind, "enc": enc,
               "dtype": dtype, "denc": denc, "ddtype": ddtype,
               "nchan": rng.choice([1, 1, 2, 3]), "scales": scales,
               "copy_info": copy_info,
               "dblock": rng.choice([[8, 8, 8], [4, 4, 4], [1, 2, 4]]),
               "sflat": rng.random() < 0.5, "sgzip": rng.random() < 0.5,
               "dflat": rng.random() < 0.5, "dgzip": rng.random() < 0.5,
               "sbits": [rng.randint(0, 3) for _ in range(3)],
               "dbits": [rng.randint(0, 3) for _ in range(3)],
               "senc": [rng.choice(["raw", "gzip"]) for _ in range(2)],
               "dshenc": [rng.choice(["raw", "gzip"]) for _ in range(2)],
               "labels": rng.choice([0, 2, 7, 300]),
               "legacy": rng.random() < 0.3,
               "kill": bool(tier == "thorough" and rng.random() < 0.15),
               # library use: two convert_chunks() calls in one process (the
               # second one from a plain source), default options
               "library_pair": bool(copy_info and src_kind in (
                   "file", "sharded") and rng.random() < 0.5),
               "blksize": rng.choice([512, 4096, 65536]),
               "salt": rng.randrange(1000)}
        if tier == "thorough" and rng.random() < 0.03:
            # a destination minishard holding more than 1 MiB of chunk data
            scn.update(src_kind="file", dst_kind="sharded", enc="raw",
                       denc="raw", dtype="uint64", ddtype="uint64", nchan=1,
                       copy_info=False, library_pair=False,
                       dbits=[0, 0, 0], dshenc=["raw", "raw"],
                       scales=[{"key": "0um", "size": [64, 64, 64],
                                "cs": [[32, 32, 32]], "block": [8, 8, 8]}])
        return {"scenario": scn}

    # ------------------------------------------------------------------
    def execute(self, trace):
        import numpy as np
        from sim import dsutil, simproc
        from sim.simfs import SimFS, mounted
        from sim.simhttp import SimServer, serving, to_legacy
        from neuroglancer_scripts import precomputed_io
        from neuroglancer_scripts.accessor import get_accessor_for_url
        from neuroglancer_scripts.scripts import convert_chunks
        scn = trace["scenario"]
        res = Result()
        log = EventLog()
        fs = SimFS(blksize=scn["blksize"], log=log)
        for d in ("/simfs/srv", SRC, DST):
            fs.dirs[d] = True
        s_sharded = scn["src_kind"] in ("sharded", "http_sharded")
        d_sharded = scn["dst_kind"] == "sharded"

        def info_for(enc, dtype, block_key, sharding):
            scales = []
            for s in scn["scales"]:
                scales.append(dict(key=s["key"], size=s["size"], cs=s["cs"],
                                   encoding=enc,
                                   block=(s["block"] if block_key == "src"
                                          else scn["dblock"]),
                                   sharding=sharding))
            return dsutil.make_info(dtype, scn["nchan"], scales)

        sinfo = info_for(scn["enc"], scn["dtype"], "src",
                         scn["sbits"] + scn["senc"] if s_sharded else None)
        dinfo = info_for(scn["denc"], scn["ddtype"], "dst",
                         scn["dbits"] + scn["dshenc"] if d_sharded else None)
        labels = scn["labels"] or None
        model = {}
        # ---- build the source with the real writers (own process) --------
        with mounted(fs):
            def build():
                if s_sharded:
                    fs.put(SRC + "/info", dsutil.info_bytes(sinfo))
                    acc = get_accessor_for_url(SRC)
                    pio = precomputed_io.get_IO_for_existing_dataset(acc)
                else:
                    flat = (scn["sflat"] and scn["src_kind"] != "http_deep"
                            ) or scn["src_kind"] == "http_flat"
                    gz = scn["sgzip"]
                    acc = get_accessor_for_url(SRC, {"flat": flat,
                                                     "gzip": gz})
                    pio = precomputed_io.get_IO_for_new_dataset(sinfo, acc)
                for si, s in enumerate(sinfo["scales"]):
                    for co in dsutil.chunk_grid(s["size"],
                                                s["chunk_sizes"][0]):
                        arr = dsutil.voxels(
                            scn["dtype"], scn["nchan"], co,
                            scn["salt"] + si,
                            labels if scn["enc"] != "raw" else None)
                        pio.write_chunk(arr, s["key"], co)
                        model[(s["key"], co)] = arr
            pr = simproc.run_process(build, fs=fs)
            if pr.status != 0 or pr.handler_errors:
                # the repository's own writers failed to build the source
                # fault-free: not this harness's fault (the harness only
                # calls write_chunk on valid data) -- a precondition failure
                res.violate(
                    "C13/precondition-op-fails",
                    "writing the source dataset with the package's own "
                    f"writers failed without any fault: {pr.exc} "
                    f"{pr.handler_errors}",
                    key=f"C13/precondition-op-fails/"
                    f"{pr.exc or pr.handler_errors[0]}")
                res.digest = log.digest()
                return res
            if scn["src_kind"] == "http_sharded" and scn["legacy"]:
                to_legacy(fs, SRC, {s["key"]: scn["sbits"][0]
                                    for s in scn["scales"]})
            src_hash = fs.tree_hash(SRC)
            log.add("SRC", src_hash)
            # ---- destination info unless --copy-info -----------------------
            if not scn["copy_info"]:
                fs.put(DST + "/info", dsutil.info_bytes(dinfo))
            # ---- run the converter as a simulated process -------------------
            argv = ["convert-chunks"]
            if scn["src_kind"].startswith("http"):
                src_url = "http://sim.test/ds/"
            else:
                src_url = SRC
            argv += [src_url, DST]
            if scn["copy_info"]:
                argv.append("--copy-info")
            if scn["dflat"]:
                argv.append("--flat")
            if not scn["dgzip"]:
                argv.append("--no-gzip")
            mode = "plain"
            if scn["src_kind"] == "http_flat" and scn["sgzip"]:
                mode = "gzstatic"
            if scn["src_kind"] == "http_deep":
                mode = "nginx"      # the documented rule set for deep layout
            server = SimServer(fs, SRC, "/ds/", mode, "416", log)
            log.add("ARGV", argv)
            lib = bool(scn.get("library_pair")) and not scn["kill"]
            SRC2, DST2 = "/simfs/srv/ds2", "/simfs/out2"
            model2 = {}
            sinfo2 = None
            if lib:
                sinfo2 = info_for(scn["enc"], scn["dtype"], "src", None)
                fs.dirs[SRC2] = True
                fs.dirs[DST2] = True

                def build2():
                    acc = get_accessor_for_url(SRC2, {"flat": True,
                                                      "gzip": False})
                    pio = precomputed_io.get_IO_for_new_dataset(sinfo2, acc)
                    for si, s_ in enumerate(sinfo2["scales"]):
                        for co in dsutil.chunk_grid(s_["size"],
                                                    s_["chunk_sizes"][0]):
                            arr = dsutil.voxels(
                                scn["dtype"], scn["nchan"], co,
                                scn["salt"] + 50 + si,
                                labels if scn["enc"] != "raw" else None)
                            pio.write_chunk(arr, s_["key"], co)
                            model2[(s_["key"], co)] = arr
                pr0 = simproc.run_process(build2, fs=fs)
                if pr0.status != 0:
                    res.violate("C13/precondition-op-fails",
                                "writing the second source failed without "
                                f"any fault: {pr0.exc}",
                                key=f"C13/precondition-op-fails/{pr0.exc}")
                    res.digest = log.digest()
                    return res

                def two_calls():
                    convert_chunks.convert_chunks(src_url, DST,
                                                  copy_info=True)
                    convert_chunks.convert_chunks(SRC2, DST2, copy_info=True)
                res.probe("library_two_calls")
            with serving(server):
                if lib:
                    pr = simproc.run_process(two_calls, fs=fs)
                else:
                    pr = simproc.run_process(
                        convert_chunks.main, argv, fs=fs,
                        run_exit_handlers=not scn["kill"])
            log.add("EXIT", pr.status, pr.exc, pr.handler_errors)
            where = (f"convert-chunks {' '.join(argv[1:])} "
                     f"[{scn['src_kind']} {scn['enc']}/{scn['dtype']} -> "
                     f"{scn['dst_kind']} {scn['denc']}/{scn['ddtype']}]")
            if not scn["kill"]:
                if pr.status != 0:
                    e = pr.exc_obj
                    res.violate("C13/nonzero-exit",
                                f"{where}: exit status {pr.status} "
                                f"({pr.exc}: {e!s:.150})",
                                key=f"C13/nonzero-exit/{pr.exc}")
                elif pr.handler_errors:
                    res.violate("C13/exit-handler-error",
                                f"{where}: exit handler raised "
                                f"{pr.handler_errors}",
                                key="C13/exit-handler-error/"
                                + pr.handler_errors[0])
            else:
                res.probe("killed_before_exit")
                res.fault("process_killed_before_exit_handlers")
            rerun_ok = False
            if scn["kill"] and not res.violations:
                # judge what the killed run left behind (below), then run the
                # command again to completion: a conversion that exits 0 must
                # leave a correct destination whatever an earlier, killed
                # attempt left there
                left = dsutil.read_dataset(
                    DST, sinfo if scn["copy_info"] else dinfo)
                for (key, co), arr in sorted(model.items(),
                                             key=lambda kv: kv[0]):
                    g = left[(key, co)]
                    want = arr.astype(np.dtype(
                        (sinfo if scn["copy_info"] else dinfo)["data_type"]))
                    if g[0] == "ok" and not (g[1].shape == want.shape
                                             and np.array_equal(g[1], want)):
                        res.violate("C13/values",
                                    f"{where}: after the kill, destination "
                                    f"chunk {key} {co} decodes to wrong "
                                    "values",
                                    key=f"C13/values-after-kill/"
                                    f"{scn['dst_kind']}")
                        break
                    res.probe("kill_left_" + g[0])
                with serving(server):
                    pr = simproc.run_process(convert_chunks.main, argv,
                                             fs=fs)
                log.add("RERUN", pr.status, pr.exc, pr.handler_errors)
                if pr.status == 0 and not pr.handler_errors:
                    rerun_ok = True
                    res.probe("rerun_after_kill_succeeded")
                else:
                    res.probe("rerun_after_kill_failed_" + str(
                        pr.exc or pr.handler_errors))
            if fs.tree_hash(SRC) != src_hash:
                res.violate("C13/source-changed", f"{where}: the source "
                            "tree changed")
            # ---- a new process reads the destination ------------------------
            compared = 0
            if not res.violations and (not scn["kill"] or rerun_ok):
                exp_info = sinfo if scn["copy_info"] else dinfo
                got = dsutil.read_dataset(DST, exp_info)
                want_dt = np.dtype(exp_info["data_type"])
                for (key, co), arr in sorted(model.items(),
                                             key=lambda kv: kv[0]):
                    g = got[(key, co)]
                    want = arr.astype(want_dt)
                    if g[0] == "ok":
                        compared += 1
                        if g[1].shape != want.shape or not np.array_equal(
                                g[1], want) or g[1].dtype != want_dt:
                            res.violate(
                                "C13/values",
                                f"{where}: destination chunk {key} {co} "
                                "differs from the source",
                                key=f"C13/values/{scn['dst_kind']}/"
                                f"{scn['denc']}")
                            break
                    elif not scn["kill"] or rerun_ok:
                        res.violate(
                            "C13/dest-unreadable",
                            f"{where}: destination chunk {key} {co} is "
                            f"{g[0]} ({g[1]}) after exit status 0",
                            key=f"C13/dest-unreadable/{scn['src_kind']}>"
                            f"{scn['dst_kind']}/"
                            f"{'copy' if scn['copy_info'] else 'info'}/"
                            f"{g[1]}")
                        break
                    else:
                        res.probe("kill_left_" + g[0])
                if lib and not res.violations:
                    got2 = dsutil.read_dataset(DST2, sinfo2)
                    for (key, co), arr in sorted(model2.items(),
                                                 key=lambda kv: kv[0]):
                        g = got2[(key, co)]
                        if not (g[0] == "ok" and g[1].shape == arr.shape
                                and np.array_equal(g[1], arr)):
                            res.violate(
                                "C13/second-conversion",
                                f"{where}: a second convert_chunks() call in "
                                "the same process (plain source, "
                                f"--copy-info) left chunk {key} {co} "
                                f"{g[0]} ({g[1] if g[0] != 'ok' else 'other values'})",
                                key="C13/second-conversion/" + str(
                                    g[1] if g[0] != "ok" else "values"))
                            break
        if d_sharded and not scn["kill"] and pr.n_handlers:
            res.probe("dest_sharded_flushed_by_exit_handler")
        if scn["src_kind"].startswith("http"):
            res.probe("remote_source")
        if scn["src_kind"] == "http_sharded":
            res.probe("remote_sharded_source")
        if scn["copy_info"]:
            res.probe("copy_info")
        if scn["ddtype"] != scn["dtype"]:
            res.probe("dtype_widened")
        if scn["denc"] != scn["enc"]:
            res.probe("encoding_changed")
        if scn["scales"][0]["size"] == [64, 64, 64]:
            res.probe("minishard_over_1MiB")
        res.digest = log.digest()
        res.steps = fs.total_calls + server.total
        res.nontrivial = compared > 0
        res.sig = "|".join([scn["src_kind"], scn["dst_kind"], scn["enc"][:3],
                            scn["denc"][:3], scn["dtype"], scn["ddtype"],
                            "copy" if scn["copy_info"] else "info",
                            "s%d" % len(scn["scales"]),
                            "kill" if scn["kill"] else "exit",
                            "c%d" % scn["nchan"]])
        res.info = {"compared": compared, "exit": pr.status,
                    "handlers": pr.n_handlers}
        return res

    def shrink(self, trace):
        scn = trace["scenario"]
        if len(scn["scales"]) > 1:
            for j in range(len(scn["scales"])):
                yield {"scenario": dict(
                    scn, scales=scn["scales"][:j] + scn["scales"][j + 1:])}
        for k, simple in (("nchan", 1), ("sgzip", False), ("dgzip", False),
                          ("sflat", True), ("dflat", True), ("legacy", False),
                          ("library_pair", False),
                          ("labels", 2), ("blksize", 4096)):
            if scn[k] != simple:
                yield {"scenario": dict(scn, **{k: simple})}
        for j, s in enumerate(scn["scales"]):
            for d in range(3):
                if s["size"][d] > 1:
                    sz = list(s["size"])
                    sz[d] = max(1, sz[d] // 2)
                    s2 = dict(s, size=sz)
                    yield {"scenario": dict(
                        scn, scales=scn["scales"][:j] + [s2]
                        + scn["scales"][j + 1:])}


if __name__ == "__main__":
    sys.exit(core.main(C13(), os.path.abspath(__file__)))
