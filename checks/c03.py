#!/venv/bin/python
"""C03 -- write -> read round trip through the dataset I/O layer; off-grid
positions rejected.  Seeded write/read/close histories over the real
PrecomputedIO + accessors on a simulated FS vs. an array model.
DESIGN.md section 5 (C03)."""
import os
import sys

sys.path.insert(0, os.path.dirname(os.path.dirname(os.path.abspath(__file__))))
from sim import core  # noqa: E402
from sim.core import Check, EventLog, Result, excname, sut  # noqa: E402

DS = "/simfs/ds"
JPEG_TOL = 52     # calibrated: --calibrate gives max 13 on the ramp family; x4


def valid_ref(scale, co):
    """Independent statement of 'on the chunk grid'."""
    if len(co) != 6:
        return False
    xs = scale["size"]
    for cs in scale["cs"]:
        ok = True
        for d in range(3):
            lo, hi = co[2 * d], co[2 * d + 1]
            if lo < 0 or lo >= xs[d] or lo % cs[d] != 0:
                ok = False
            elif hi != min(lo + cs[d], xs[d]):
                ok = False
        if ok:
            return True
    return False


class C03(Check):
    pid = "C03"
    level = "exploration"
    rule = ("one run = one info (data type, channels, 1-3 scales, 1-2 chunk "
            "sizes per scale, encoding + parameters) x accessor kind/options "
            "and a seeded history (<=40 ops) of valid writes across chunks "
            "and scales, off-grid writes (12 classes incl. per-axis mixes of "
            "different declared chunk sizes), closes and reads via "
            "the same or a fresh handle; distinct = distinct reach signature "
            "(encoding, dtype, channels, accessor kind+options, #scales, "
            "multi chunk sizes, border chunks, rewrites, invalid classes "
            "used, non-cubic block); non-trivial = at least one chunk "
            "written, read back and compared")
    assumptions = [
        "sharded handles: each chunk stored once, reads only after close() "
        "(the writer's documented flush)",
        "file accessor: rewrites allowed, last write wins",
        "voxel_offset fixed at [0,0,0] (the layer rejects anything else)",
        "JPEG: value error is bounded only for smooth ramps with quality >= "
        f"90 (threshold {JPEG_TOL}, calibrated with >= 4x margin); shape and "
        "dtype are always exact",
        "rejection of an off-grid position = the write raises and the stored "
        "tree is byte-identical afterwards",
    ]
    components = {
        "real": ["precomputed_io.PrecomputedIO", "chunk_encoding + "
                 "_compressed_segmentation + _jpeg (PIL)", "file_accessor",
                 "sharded_file_accessor", "accessor.get_accessor_for_url"],
        "simulated": ["raw file I/O (SimFS)", "temp names", "gzip clock"],
    }
    tiers = {"quick": dict(runs=8000, budget=60),
             "thorough": dict(runs=60000, budget=720)}
    expected_probes = ["invalid_rejected", "border_chunk", "rewrite",
                      "fresh_handle_read", "noncubic_block", "jpeg_compared",
                      "multi_chunk_sizes", "sharded_roundtrip"]

    def setup_worker(self):
        from sim import simenv, simfs, simproc
        simfs.install()
        simproc.install()
        simenv.install_clock()

    # ------------------------------------------------------------------
    def gen(self, rng, tier, idx):
        enc = rng.choice(["raw", "raw", "compressed_segmentation",
                          "compressed_segmentation", "jpeg"])
        if enc == "raw":
            dtype = rng.choice(["uint8", "uint16", "uint32", "uint64",
                                "float32"])
            nchan = rng.choice([1, 1, 2, 3, 4])
        elif enc == "jpeg":
            dtype, nchan = "uint8", rng.choice([1, 3])
        else:
            dtype = rng.choice(["uint32", "uint64"])
            nchan = rng.choice([1, 1, 2, 3])
        kind = rng.choice(["file", "file", "sharded"])
        nscales = rng.randint(1, 3)
        scales = []
        for si in range(nscales):
            size = [rng.randint(1, 12) for _ in range(3)]
            if kind == "sharded":
                c = rng.choice([1, 2, 3, 4, 5, 8])
                cs = [[c, c, c]]
            else:
                cs = [[rng.choice([1, 2, 3, 4, 5, 8]) for _ in range(3)]
                      for _ in range(rng.choice([1, 1, 2]))]
            sc = {"key": f"k{si}", "size": size, "cs": cs, "encoding": enc}
            if enc == "compressed_segmentation":
                if rng.random() < 0.5:
                    b = rng.choice([1, 2, 4, 8])
                    sc["block"] = [b, b, b]
                else:
                    sc["block"] = [rng.choice([1, 2, 4, 8])
                                   for _ in range(3)]
            if kind == "sharded":
                sc["sharding"] = [rng.randint(0, 3), rng.randint(0, 3),
                                  rng.randint(0, 3),
                                  rng.choice(["raw", "gzip"]),
                                  rng.choice(["raw", "gzip"])]
            scales.append(sc)
        scn = {"enc": enc, "dtype": dtype, "nchan": nchan, "kind": kind,
               "scales": scales,
               "flat": rng.random() < 0.5, "gzip": rng.random() < 0.5,
               "level": rng.choice([0, 1, 9]),
               "strategy": rng.choice(["in memory", "on disk"]),
               "via_url": rng.random() < 0.5,
               "jpeg_plane": rng.choice(["xy", "xz"]),
               "jpeg_quality": rng.choice([90, 95, 100]),
               "labels": rng.choice([1, 2, 3, 5, 17, 300, 1000, 1000, 0]),
               # zero background slabs (sparse segmentations)
               "sparse": rng.random() < 0.3,
               "blksize": rng.choice([512, 4096, 65536]),
               "short_every": rng.choice([0, 0, 3])}
        from sim import dsutil
        # candidate chunk positions per scale (all chunk sizes)
        cand = []
        for si, sc in enumerate(scales):
            for cs in sc["cs"]:
                for co in dsutil.chunk_grid(sc["size"], cs):
                    cand.append((si, list(co)))
        rng.shuffle(cand)
        cand = cand[:rng.randint(1, 14)]
        ops = []
        written = []
        salt = 0
        for si, co in cand:
            salt += 1
            ops.append({"op": "write", "s": si, "co": co, "salt": salt,
                        "present": rng.choice(
                            ["c", "c", "c", "fortran", "bigendian", "strided",
                             "readonly", "transposed_view"])})
            written.append((si, co))
            r = rng.random()
            if r < 0.25:
                bad = self._bad(rng, scales[si], co)
                if bad is not None:
                    ops.append({"op": "bad_write", "s": si, "co": bad[1],
                                "cls": bad[0]})
            if kind == "file":
                if rng.random() < 0.3:
                    wsi, wco = rng.choice(written)
                    ops.append({"op": "read", "s": wsi, "co": wco,
                                "fresh": rng.random() < 0.5})
                if rng.random() < 0.15:
                    wsi, wco = rng.choice(written)
                    salt += 1
                    ops.append({"op": "write", "s": wsi, "co": wco,
                                "salt": salt})
        if kind == "sharded":
            ops.append({"op": "close"})
        order = list(written)
        rng.shuffle(order)
        seen = set()
        for wsi, wco in order:
            if (wsi, tuple(wco)) in seen:
                continue
            seen.add((wsi, tuple(wco)))
            ops.append({"op": "read", "s": wsi, "co": wco,
                        "fresh": rng.random() < 0.6})
        return {"scenario": scn, "ops": ops[:60]}

    def _bad(self, rng, scale, co):
        cs = scale["cs"][0]
        size = scale["size"]
        d = rng.randrange(3)
        lo, hi = co[2 * d], co[2 * d + 1]
        cls = rng.choice(["off_lattice", "short_max", "long_max", "beyond",
                          "negative", "swapped", "arity5", "arity7",
                          "border_full", "axes_permuted", "empty"]
                         + (["mixed_sizes"] * 6 if len(scale["cs"]) > 1
                            else []))
        c = list(co)
        if cls == "mixed_sizes":
            # each axis on the lattice of *some* declared chunk size, but
            # no single chunk size matches all three axes
            pick = [rng.randrange(len(scale["cs"])) for _ in range(3)]
            if len(set(pick)) == 1:
                pick[rng.randrange(3)] = (pick[0] + 1) % len(scale["cs"])
            c = []
            for ax in range(3):
                a = scale["cs"][pick[ax]][ax]
                lo_ = rng.randrange(-(-size[ax] // a)) * a
                c += [lo_, min(lo_ + a, size[ax])]
        if cls == "off_lattice":
            c[2 * d] = lo + 1
        elif cls == "short_max":
            c[2 * d + 1] = hi - 1
        elif cls == "long_max":
            c[2 * d + 1] = hi + 1
        elif cls == "beyond":
            start = -(-size[d] // cs[d]) * cs[d]
            c[2 * d], c[2 * d + 1] = start, start + cs[d]
        elif cls == "negative":
            c[2 * d], c[2 * d + 1] = -cs[d], 0
        elif cls == "swapped":
            c[2 * d], c[2 * d + 1] = hi, lo
        elif cls == "arity5":
            c = c[:5]
        elif cls == "arity7":
            c = c + [0]
        elif cls == "border_full":
            c[2 * d + 1] = lo + cs[d] + (0 if lo + cs[d] != hi else cs[d])
        elif cls == "axes_permuted":
            c = [c[2], c[3], c[0], c[1], c[4], c[5]]
        elif cls == "empty":
            c[2 * d + 1] = lo
        if valid_ref(scale, c):
            return None
        return cls, c

    # ------------------------------------------------------------------
    def _arr(self, scn, co, salt):
        import numpy as np
        from sim import dsutil
        if scn["enc"] == "jpeg":
            return dsutil.ramp(scn["nchan"], co, salt)
        labels = scn["labels"] if scn["enc"] != "raw" else None
        arr = dsutil.voxels(scn["dtype"], scn["nchan"], co, salt,
                            labels or None)
        if scn.get("sparse") and scn["enc"] == "compressed_segmentation":
            arr = arr.copy()
            arr[:, :, :, arr.shape[3] // 2:] = 0
            if salt % 2:
                arr[:, arr.shape[1] // 2:, :, :] = 0
        if scn["enc"] == "raw" and salt % 5 == 0:
            # voxel values whose stored bytes begin like a container format
            # (gzip / JPEG magic): they are just voxels
            magic = [b"\x1f\x8b\x08\x00", b"\xff\xd8\xff\xe0",
                     b"\x1f\x8b\x08\x08"][(salt // 5) % 3]
            flat = arr.reshape(-1).view(np.uint8)
            k = min(len(magic), flat.size)
            flat[:k] = np.frombuffer(magic[:k], dtype=np.uint8)
        return arr

    def _present(self, arr, how):
        """The same values handed over in another memory presentation: the
        I/O layer takes any 4-D array."""
        import numpy as np
        if how == "fortran":
            return np.asfortranarray(arr)
        if how == "bigendian":
            return arr.astype(arr.dtype.newbyteorder(">"))
        if how == "strided":
            big = np.zeros(tuple(2 * s + 1 for s in arr.shape), arr.dtype)
            view = big[1::2, 1::2, 1::2, 1::2]
            view[...] = arr
            return view
        if how == "readonly":
            a = arr.copy()
            a.setflags(write=False)
            return a
        if how == "transposed_view":
            return np.ascontiguousarray(arr.transpose(3, 2, 1, 0)).transpose(
                3, 2, 1, 0)
        return arr

    def execute(self, trace):
        import numpy as np
        from sim import dsutil
        from sim.simfs import SimFS, mounted
        from neuroglancer_scripts import precomputed_io
        from neuroglancer_scripts.accessor import get_accessor_for_url
        from neuroglancer_scripts.sharded_file_accessor import (
            ShardedFileAccessor)
        scn = trace["scenario"]
        res = Result()
        log = EventLog()
        fs = SimFS(blksize=scn["blksize"], log=log)
        fs.short_every = scn["short_every"]
        fs.dirs[DS] = True
        info = dsutil.make_info(scn["dtype"], scn["nchan"], scn["scales"])
        eopts = {"jpeg_plane": scn["jpeg_plane"],
                 "jpeg_quality": scn["jpeg_quality"]}
        aopts = {"flat": scn["flat"], "gzip": scn["gzip"],
                 "compresslevel": scn["level"]}
        want_dtype = np.dtype(scn["dtype"]).newbyteorder("<")
        model = {}
        flags = set()
        compared = 0
        held = []

        def open_writer():
            if scn["kind"] == "sharded":
                if scn["via_url"]:
                    return get_accessor_for_url(DS, {"sharding": True})
                return ShardedFileAccessor(DS, strategy=scn["strategy"])
            return get_accessor_for_url(DS, dict(aopts))

        with mounted(fs):
            st, acc = sut(open_writer)
            if st == "ok":
                st, pio = sut(precomputed_io.get_IO_for_new_dataset, info,
                              acc, encoder_options=eopts)
                if st == "exc":
                    acc = pio
            if st == "exc":
                res.violate("C03/open", f"creating the dataset raised "
                            f"{acc!r}", key=f"C03/open/{excname(acc)}")
                return self._fin(res, log, fs, scn, flags, 0)
            closed = scn["kind"] != "sharded"
            for i, op in enumerate(trace["ops"]):
                log.add("OP", i, op["op"])
                name = op["op"]
                if name == "close":
                    st, v = sut(acc.close)
                    if st == "exc":
                        res.violate("C03/close", f"op {i}: close() raised "
                                    f"{v!r}", key=f"C03/close/{excname(v)}")
                        break
                    closed = True
                    continue
                scale = scn["scales"][op["s"]]
                key = scale["key"]
                co = tuple(op["co"])
                if name == "write":
                    arr = self._arr(scn, co, op["salt"])
                    given = self._present(arr, op.get("present", "c"))
                    keep_given = given.copy()
                    st, v = sut(pio.write_chunk, given, key, co)
                    if op.get("present", "c") != "c":
                        flags.add("present")
                        res.probe("presentation_" + op["present"])
                    if st == "ok" and not np.array_equal(given, keep_given):
                        res.violate("C03/input-modified",
                                    f"op {i}: write_chunk modified the "
                                    "caller's array")
                        break
                    if st == "exc":
                        res.violate(
                            "C03/write-fails",
                            f"op {i}: write_chunk({key}, {co}) of a valid "
                            f"{arr.shape} {arr.dtype} chunk raised {v!r} "
                            f"(encoding {scn['enc']}, block "
                            f"{scale.get('block')})",
                            key=f"C03/write-fails/{scn['enc']}/{excname(v)}")
                        break
                    if (key, co) in model:
                        flags.add("rewrite")
                        res.probe("rewrite")
                    model[(key, co)] = arr
                    if any(co[2 * d + 1] - co[2 * d] < max(
                            c[d] for c in scale["cs"]) for d in range(3)):
                        flags.add("border")
                        res.probe("border_chunk")
                elif name == "bad_write":
                    before = fs.snapshot(DS)
                    shape = [max(1, abs(co[2 * d + 1] - co[2 * d]))
                             if len(co) == 6 else 1 for d in range(3)]
                    arr = np.zeros((scn["nchan"], shape[2], shape[1],
                                    shape[0]), dtype=want_dtype)
                    st, v = sut(pio.write_chunk, arr, key, co)
                    flags.add("bad:" + op["cls"])
                    if st == "ok":
                        res.violate(
                            "C03/offgrid-accepted",
                            f"op {i}: write_chunk({key}, {co}) [{op['cls']}] "
                            f"is off the chunk grid (size {scale['size']}, "
                            f"chunk sizes {scale['cs']}) but was accepted",
                            key=f"C03/offgrid-accepted/{op['cls']}")
                        break
                    if fs.snapshot(DS) != before:
                        res.violate("C03/offgrid-stored",
                                    f"op {i}: rejected write [{op['cls']}] "
                                    "changed the stored tree")
                        break
                    res.probe("invalid_rejected")
                elif name == "read":
                    if not closed or (key, co) not in model:
                        continue
                    rp = pio
                    if op["fresh"]:
                        st, a2 = sut(get_accessor_for_url, DS, dict(aopts))
                        if st == "ok":
                            # the extrinsic options of a reader need not be
                            # the writer's: what is stored decides
                            ropts = eopts if i % 3 else (
                                {} if i % 2 else
                                {"jpeg_plane": "xz" if scn["jpeg_plane"]
                                 == "xy" else "xy", "jpeg_quality": 75})
                            st, rp = sut(
                                precomputed_io.get_IO_for_existing_dataset,
                                a2, encoder_options=ropts)
                            if st == "exc":
                                a2 = rp
                        if st == "exc":
                            res.violate("C03/reopen", f"op {i}: reopening "
                                        f"raised {a2!r}",
                                        key=f"C03/reopen/{excname(a2)}")
                            break
                        res.probe("fresh_handle_read")
                        flags.add("fresh")
                    st, got = sut(rp.read_chunk, key, co)
                    want = model[(key, co)]
                    compared += 1
                    if st == "exc":
                        res.violate(
                            "C03/read-fails",
                            f"op {i}: read_chunk({key}, {co}) raised "
                            f"{got!r} although written",
                            key=f"C03/read-fails/{scn['enc']}/"
                            f"{excname(got)}")
                        break
                    if not isinstance(got, np.ndarray) or (
                            got.shape != want.shape):
                        res.violate("C03/shape", f"op {i}: read_chunk({key},"
                                    f" {co}) shape "
                                    f"{getattr(got, 'shape', None)} != "
                                    f"{want.shape}")
                        break
                    if got.dtype != want_dtype:
                        res.violate("C03/dtype", f"op {i}: read_chunk dtype "
                                    f"{got.dtype} != {want_dtype}")
                        break
                    if scn["enc"] == "jpeg":
                        err = int(np.max(np.abs(got.astype(np.int32)
                                                - want.astype(np.int32))))
                        res.probe("jpeg_compared")
                        res.probes["jpeg_max_err"] = max(
                            res.probes.get("jpeg_max_err", 0), err)
                        if err > JPEG_TOL:
                            res.violate("C03/jpeg-error",
                                        f"op {i}: JPEG round trip of a "
                                        f"smooth ramp {want.shape} q="
                                        f"{scn['jpeg_quality']} has max "
                                        f"error {err} > {JPEG_TOL}")
                            break
                    elif np.array_equal(got, want):
                        held.append((i, key, co, got, want))
                    if scn["enc"] != "jpeg" and not np.array_equal(got,
                                                                   want):
                        nbad = int(np.sum(got != want))
                        res.violate("C03/values",
                                    f"op {i}: read_chunk({key}, {co}) "
                                    f"differs from what was written in "
                                    f"{nbad}/{want.size} voxels "
                                    f"(encoding {scn['enc']})",
                                    key=f"C03/values/{scn['enc']}")
                        break
        # arrays handed out earlier must still hold what was read: results of
        # different reads must not share state
        if not res.violations:
            for (i, key, co, got, want) in held:
                if not np.array_equal(got, want):
                    res.violate("C03/result-aliased",
                                f"op {i}: the array returned by read_chunk("
                                f"{key}, {co}) changed after later reads "
                                "(results share memory)")
                    break
            if len(held) > 1:
                res.probe("held_results_rechecked")
        if scn["kind"] == "sharded" and compared:
            res.probe("sharded_roundtrip")
        return self._fin(res, log, fs, scn, flags, compared)

    def _fin(self, res, log, fs, scn, flags, compared):
        log.add("TREE", fs.tree_hash())
        res.digest = log.digest()
        res.steps = fs.total_calls
        for k, n in fs.fired.items():
            res.fault(k, n)
        res.nontrivial = compared > 0
        multi = any(len(s["cs"]) > 1 for s in scn["scales"])
        noncubic = any(len(set(s.get("block", [1]))) > 1
                       for s in scn["scales"])
        if multi:
            res.probe("multi_chunk_sizes")
        if noncubic:
            res.probe("noncubic_block")
        acc = scn["kind"]
        if acc == "file":
            acc += ("F" if scn["flat"] else "D") + (
                "z%d" % scn["level"] if scn["gzip"] else "p")
        else:
            acc += "U" if scn["via_url"] else scn["strategy"][:2]
        res.sig = "|".join([scn["enc"][:3], scn["dtype"],
                            "c%d" % scn["nchan"], acc,
                            "s%d" % len(scn["scales"]),
                            "multi" if multi else "-",
                            "ncb" if noncubic else "-",
                            ",".join(sorted(flags))])
        res.info = {"compared": compared, "raw_calls": fs.total_calls}
        return res

    def shrink(self, trace):
        scn, ops = trace["scenario"], trace["ops"]
        for cand in core.ddmin_candidates(ops):
            yield {"scenario": scn, "ops": cand}
        for k, simple in (("short_every", 0), ("blksize", 4096),
                          ("nchan", 1), ("gzip", False), ("flat", True),
                          ("via_url", False), ("strategy", "in memory")):
            if scn[k] != simple and not (k == "nchan"
                                         and scn["enc"] == "jpeg"):
                yield {"scenario": dict(scn, **{k: simple}), "ops": ops}


def calibrate_jpeg():
    """Measure the max JPEG round-trip error on the ramp family."""
    import itertools
    import numpy as np
    from sim import dsutil
    from neuroglancer_scripts import _jpeg
    worst = 0
    for nchan, q, plane in itertools.product([1, 3], [90, 95, 100],
                                             ["xy", "xz"]):
        for sx, sy, sz in itertools.product([1, 2, 5, 8, 12], repeat=3):
            for salt in (0, 3):
                co = (4, 4 + sx, 8, 8 + sy, 0, sz)
                a = dsutil.ramp(nchan, co, salt)
                b = _jpeg.decode_chunk(_jpeg.encode_chunk(a, q, plane),
                                       (sx, sy, sz), nchan)
                worst = max(worst, int(np.max(np.abs(
                    a.astype(int) - b.astype(int)))))
    return worst


if __name__ == "__main__":
    if "--calibrate" in sys.argv:
        core.bootstrap()
        print("max JPEG ramp error:", calibrate_jpeg())
        sys.exit(0)
    sys.exit(core.main(C03(), os.path.abspath(__file__)))
