#!/venv/bin/python
"""C04 -- sharded storage returns what was stored, whatever the order of
writes, the subset and the buffering strategy; shard trees byte-identical.
DESIGN.md section 5 (C04/C04)."""
import os
import sys

sys.path.insert(0, os.path.dirname(os.path.dirname(os.path.abspath(__file__))))
from sim import core  # noqa: E402
from sim.core import Check  # noqa: E402


class C04(Check):
    pid = "C04"
    level = "exploration"
    rule = ("one run = one chunk subset of one grid/sharding triple delivered "
            "under K=3..6 seeded arrival orders (ascending, descending, "
            "shuffles, round-robin over minishards, first-id-last, adjacent "
            "swaps; all permutations for sets <= 6 in thorough) x both "
            "buffering strategies, each into a fresh SimFS, closed, reopened "
            "by a fresh accessor; distinct = distinct reach signature (max "
            "pending depth, flush cascade, gap fill, #shards, #minishards, "
            "preshift, unused slots, encodings, write path, subset kind, "
            ">=64 total bits); variants: a second scale with the same shard "
            "numbers written interleaved, a second store/close session on "
            "the same accessor into untouched shards, writers that rely on "
            "the accessor's exit handler (simulated process), payloads above "
            "64 KiB, minishards above 1 MiB (thorough); non-trivial = at "
            "least one stored chunk fetched back and compared")
    assumptions = [
        "each chunk is stored once (sharded rewrites are undefined by the "
        "writer)", "reads happen after close() through a freshly opened "
        "accessor (reads before close are not promised)",
        "minishard_bits <= 10 (the zero header is 16*2**bits bytes)",
        "temporary buffer files of the on-disk strategy live in the "
        "simulated FS (/simfs/tmp) with simulated names",
    ]
    components = {
        "real": ["sharded_file_accessor (MiniShard, Shard, ShardedScale, "
                 "ShardedFileAccessor, OnDisk*/InMem*)", "sharded_base",
                 "precomputed_io + raw codec (pio run class)",
                 "accessor.get_accessor_for_url"],
        "simulated": ["raw file I/O (SimFS)", "uuid4 / TemporaryDirectory "
                      "names", "arrival order of chunks", "atexit registry"],
        "independent": ["sim/specref/sharded.py (Morton code and routing "
                        "used by the generator to build hole patterns)"],
    }
    tiers = {"quick": dict(runs=8000, budget=60),
             "thorough": dict(runs=60000, budget=720)}
    expected_probes = ["flush_cascade_ge2", "gap_fill_on_close", "parked",
                      "unused_minishard_slot", "bits_total_ge_64",
                      "payload_gt_4096", "empty_payload",
                      "all_permutations_sets"]

    def setup_worker(self):
        from sim import shardeng, simenv, simfs, simproc
        simfs.install()
        simproc.install()
        simenv.install_clock()
        shardeng.install_probes()

    def gen(self, rng, tier, idx):
        from sim import shardeng
        return shardeng.gen_scenario(rng, tier)

    def execute(self, trace):
        from sim import shardeng
        return shardeng.execute(trace, self.pid)

    def shrink(self, trace):
        from sim import shardeng
        return shardeng.shrink(trace)


if __name__ == "__main__":
    sys.exit(core.main(C04(), os.path.abspath(__file__)))
