#!/venv/bin/python
"""C18 -- I/O failures and interrupted writes never yield silently wrong data.

fault_enumeration: for a sampled scenario (accessor kind x configuration x
encoding x target operation over a dataset with several chunks already
stored), run the operation fault-free to learn its raw I/O calls, then
re-execute it once per (raw call x plausible errno) and once per crash point
(before / after / torn inside each call) from a fresh copy of the stored
state; judge the outcome and what a fresh reader process finds afterwards.
DESIGN.md section 5 (C18).
"""
import os
import sys

sys.path.insert(0, os.path.dirname(os.path.dirname(os.path.abspath(__file__))))
from sim import core  # noqa: E402
from sim.core import (Check, EventLog, HarnessError, Result, excname,  # noqa
                      payload, sut)

DS = "/simfs/ds"


def _acc_opts(sc):
    return {"flat": sc["flat"], "gzip": sc["gzip"], "compresslevel": 6}


class C18(Check):
    pid = "C18"
    level = "fault_enumeration"
    rule = ("one scenario = (accessor kind, layout/gzip/strategy, encoding, "
            "target operation) over a stored dataset; inside it EVERY raw "
            "I/O call (or HTTP request) of the operation is failed once with "
            "each plausible errno/status and interrupted before, after and "
            "(for writes) torn inside; evaluations = fault executions; "
            "distinct = distinct (accessor kind, operation, repo call site "
            "file:line, raw-call kind, fault) tuples actually fired; "
            "non-trivial = the fault fired and the oracle compared at least "
            "one stored value afterwards. Scenarios are sampled; single "
            "faults per scenario are enumerated exhaustively (long operations: "
            "a fixed spread of 40 call sites); operations include naturally "
            "refused stores, the pyramid driver, sharded store...close "
            "sessions and HTTP fetches through fresh or cold accessors; "
            "after a failure the same handle is retried without faults; "
            "thorough adds seeded 2-3 fault sequences and disk-full budgets")
    assumptions = [
        "process-interruption durability model: every completed raw write "
        "is durable, what is lost is what is still in user-space buffers "
        "(the real io.Buffered*/GzipFile sit above the seam); power-loss "
        "reordering is out of scope (the code never calls fsync)",
        "a normal return although a fault was injected is accepted iff the "
        "effect is completely in place (the standard library legitimately "
        "masks some faults: os.path.exists inside makedirs, "
        "makedirs(exist_ok))",
        "a fault whose errno/status *means* absence (ENOENT on a probe, "
        "404) is absence, not failure",
        "after a failed store the target may read as old, new, absent or "
        "detectably invalid (in-place overwrite is not required to be "
        "atomic); every other stored entry must be unchanged",
        "after an interruption each chunk must be complete-and-correct (old "
        "or new value for the target), absent, or make the read raise; which "
        "exception a damaged file raises is recorded, not judged",
        "retries / further use of a half-failed handle are not judged; the "
        "later reader is a fresh accessor in a new simulated process",
        "sharded operations write a scale that has no shard files yet "
        "(re-writing existing shards is undefined by the writer)",
    ]
    components = {
        "real": ["file_accessor", "sharded_file_accessor", "sharded_base",
                 "http_accessor", "sharded_http_accessor", "precomputed_io",
                 "chunk codecs", "requests/urllib3 response handling",
                 "io.Buffered*", "gzip", "pathlib", "os.makedirs"],
        "simulated": ["raw file I/O + crash (SimFS)", "HTTP transport and "
                      "static server (SimHTTP)", "process boundary "
                      "(fresh accessor objects, dead-epoch handles)"],
    }
    tiers = {"quick": dict(runs=400, budget=75, batch=4, recheck_every=40),
             "thorough": dict(runs=12000, budget=900, batch=4,
                              recheck_every=200)}
    expected_probes = ["crash_in_shard_data", "crash_before_shard_index",
                      "crash_in_shard_index", "fault_on_close",
                      "normal_return_effect_in_place", "torn_write",
                      "target_invalid_after_crash", "target_absent_after_crash",
                      "target_new_after_crash", "target_old_after_crash"]

    def setup_worker(self):
        from sim import simenv, simfs, simproc
        simfs.install()
        simproc.install()
        simenv.install_clock()
        try:
            from sim import simhttp
            simhttp.install()
        except ImportError:
            pass

    # ------------------------------------------------------------------
    def gen(self, rng, tier, idx):
        kind = rng.choice(["file", "file", "file", "sharded", "sharded",
                           "http", "sharded_http"])
        enc = rng.choice(["raw", "raw", "compressed_segmentation"])
        dtype = (rng.choice(["uint32", "uint64"])
                 if enc == "compressed_segmentation"
                 else rng.choice(["uint8", "uint16", "uint32", "float32"]))
        cs = rng.choice([2, 3, 4, 8])
        size = [rng.randint(cs + 1, 2 * cs + 2) for _ in range(3)]
        if rng.random() < 0.4:
            size[rng.randrange(3)] = rng.randint(1, cs)
        sc = {"kind": kind, "enc": enc, "dtype": dtype,
              "nchan": rng.choice([1, 1, 2]), "cs": cs, "size": size,
              "block": rng.choice([[2, 2, 2], [4, 4, 4], [8, 8, 8]]),
              "flat": rng.random() < 0.5, "gzip": rng.random() < 0.6,
              "blksize": rng.choice([512, 512, 4096, 8192]),
              "strategy": rng.choice(["in memory", "on disk"]),
              "bits": [rng.choice([0, 1, 2, 9 if rng.random() < 0.2 else 1]),
                       rng.randint(0, 2), rng.randint(0, 2)],
              "ienc": rng.choice(["raw", "gzip"]),
              "denc": rng.choice(["raw", "gzip"]),
              "salt": rng.randrange(1000)}
        if kind == "file":
            op = rng.choice(["write_existing", "write_existing", "write_new",
                             "write_new", "store_file_new",
                             "store_file_overwrite", "read_chunk",
                             "fetch_file", "file_exists", "file_exists_absent",
                             "read_absent", "store_chunk_noow_existing",
                             "store_file_noow_existing", "pyramid"])
        elif kind == "sharded":
            op = rng.choice(["session", "session", "session", "read_chunk",
                             "read_all", "pyramid"])
        else:
            op = rng.choice(["http_fetch_chunk", "http_fetch_chunk",
                             "http_fetch_absent", "http_fetch_info",
                             "http_exists", "http_exists_absent"])
            sc["legacy"] = rng.random() < 0.3
            sc["zero_range"] = rng.choice(["200", "416", "206"])
            sc["url"] = rng.choice(["http://sim.test/ds", "http://sim.test/ds/",
                                    "precomputed://https://sim.test/ds"])
            # cold: the accessor is built fault-free before the window and
            # must serve the same request again once the faults have stopped
            sc["cold"] = rng.random() < 0.5
            if kind == "http":
                sc["flat"] = rng.random() < 0.6    # deep => nginx rules
        if kind in ("file", "sharded"):
            # cold handle: accessor/PrecomputedIO created fault-free before
            # the fault window and kept for a retry after the faults stop
            sc["cold"] = rng.random() < 0.4
        if op == "pyramid":
            # the pyramid code needs new chunk = 1 or 2 half-chunks
            sc["cs"] = rng.choice([2, 4, 8])
            sc["size"] = [rng.randint(sc["cs"] + 1, 2 * sc["cs"] + 2)
                          for _ in range(3)]
        opd = {"name": op, "ci": rng.randrange(64),
               "order_seed": rng.randrange(1 << 30),
               "via_url": rng.random() < 0.5}
        faults = "enum"
        if tier == "thorough" and rng.random() < 0.35:
            n = rng.choice([2, 2, 3])
            faults = {"random": n, "seed": rng.randrange(1 << 30),
                      "capacity": rng.choice([None, None, 64, 600, 3000])}
        return {"scenario": sc, "op": opd, "faults": faults}

    # ------------------------------------------------------------------
    def _info(self, sc):
        from sim import dsutil
        sharding = None
        if sc["kind"] == "sharded":
            sharding = sc["bits"] + [sc["ienc"], sc["denc"]]
        s1 = [dsutil.ceil_div(v, 2) for v in sc["size"]]
        scales = [dict(key="s0", size=sc["size"], cs=[[sc["cs"]] * 3],
                       encoding=sc["enc"], block=sc["block"],
                       sharding=sharding),
                  dict(key="s1", size=s1, cs=[[sc["cs"]] * 3],
                       encoding=sc["enc"], block=sc["block"],
                       sharding=sharding)]
        return dsutil.make_info(sc["dtype"], sc["nchan"], scales)

    def _base(self, sc, info):
        """Build the stored state M0 fault-free with the real writers."""
        from sim import dsutil
        from sim.simfs import SimFS, mounted
        from neuroglancer_scripts import precomputed_io
        from neuroglancer_scripts.accessor import get_accessor_for_url
        fs = SimFS(blksize=sc["blksize"], track_sites=True)
        fs.dirs[DS] = True
        model = {}
        with mounted(fs):
            if sc["kind"] == "sharded":
                fs.put(DS + "/info", dsutil.info_bytes(info))
                acc = get_accessor_for_url(DS)
                pio = precomputed_io.get_IO_for_existing_dataset(acc)
            else:
                acc = get_accessor_for_url(DS, _acc_opts(sc))
                pio = precomputed_io.get_IO_for_new_dataset(info, acc)
            s0 = info["scales"][0]
            labels = 5 if sc["enc"] == "compressed_segmentation" else None
            for co in dsutil.chunk_grid(s0["size"], s0["chunk_sizes"][0]):
                arr = dsutil.voxels(sc["dtype"], sc["nchan"], co,
                                    sc["salt"], labels)
                pio.write_chunk(arr, "s0", co)
                model[("s0", co)] = arr
            if sc["kind"] == "sharded":
                acc.close()
            acc.store_file("aux.bin", payload(sc["salt"], 700),
                           overwrite=True)
        files = {"aux.bin": payload(sc["salt"], 700)}
        return fs, model, files

    # ------------------------------------------------------------------
    def _make_op(self, sc, opd, info, model, files):
        op = self._make_op_inner(sc, opd, info, model, files)
        return op

    def _make_op_inner(self, sc, opd, info, model, files):
        """Return (label, target, callable(fs) -> value, expected-after)
        The callable runs entirely through real repo code."""
        from sim import dsutil
        from neuroglancer_scripts import precomputed_io
        from neuroglancer_scripts.accessor import get_accessor_for_url
        from neuroglancer_scripts.sharded_file_accessor import (
            ShardedFileAccessor)
        import numpy as np
        name = opd["name"]
        s0, s1 = info["scales"]
        grid0 = dsutil.chunk_grid(s0["size"], s0["chunk_sizes"][0])
        grid1 = dsutil.chunk_grid(s1["size"], s1["chunk_sizes"][0])
        labels = 5 if sc["enc"] == "compressed_segmentation" else None
        opts = _acc_opts(sc) if sc["kind"] == "file" else {}

        holder = {}
        cold = bool(sc.get("cold"))

        def open_acc():
            if cold and "acc" in holder:
                return holder["acc"]
            acc = get_accessor_for_url(DS, dict(opts))
            if cold:
                holder["acc"] = acc
            return acc

        def open_pio():
            if cold and "pio" in holder:
                return holder["acc"], holder["pio"]
            acc = open_acc()
            pio = precomputed_io.get_IO_for_existing_dataset(acc)
            if cold:
                holder["pio"] = pio
            return acc, pio

        def prepare():
            holder.clear()
            if cold:
                open_pio()

        if name in ("write_existing", "write_new"):
            if name == "write_existing":
                co = grid0[opd["ci"] % len(grid0)]
                key = "s0"
            else:
                co = grid1[opd["ci"] % len(grid1)]
                key = "s1"
            arr = dsutil.voxels(sc["dtype"], sc["nchan"], co,
                                sc["salt"] + 7, labels)

            def run():
                acc, pio = open_pio()
                pio.write_chunk(arr, key, co)
            return dict(prepare=prepare, holder=holder, label=name, run=run, target=("chunk", (key, co)),
                        new=arr, is_store=True)
        if name in ("store_file_new", "store_file_overwrite"):
            fname = "mesh/sub/frag.bin" if name.endswith("new") else "aux.bin"
            buf = payload(sc["salt"] + 3, 1500)
            ow = name.endswith("overwrite")

            def run():
                acc = open_acc()
                acc.store_file(fname, buf, overwrite=ow)
            return dict(prepare=prepare, holder=holder, label=name, run=run, target=("file", fname), new=buf,
                        is_store=True)
        if name == "store_chunk_noow_existing":
            # a store that fails *naturally* (EEXIST): no permission to
            # overwrite an existing chunk
            co = grid0[opd["ci"] % len(grid0)]
            buf = payload(sc["salt"] + 5, 300)

            def run():
                acc = open_acc()
                acc.store_chunk(buf, "s0", co, overwrite=False)
            return dict(prepare=prepare, holder=holder, label=name, run=run, target=("chunk", ("s0", co)),
                        new=None, is_store=True, must_fail=True)
        if name == "store_file_noow_existing":
            buf = payload(sc["salt"] + 6, 900)

            def run():
                acc = open_acc()
                acc.store_file("aux.bin", buf, overwrite=False)
            return dict(prepare=prepare, holder=holder, label=name, run=run, target=("file", "aux.bin"),
                        new=buf, is_store=True, must_fail=True)
        if name in ("read_chunk", "read_absent"):
            if name == "read_chunk":
                key, co = "s0", grid0[opd["ci"] % len(grid0)]
            else:
                key, co = "s1", grid1[opd["ci"] % len(grid1)]

            def run():
                acc, pio = open_pio()
                return pio.read_chunk(key, co)
            return dict(prepare=prepare, holder=holder, label=name, run=run, target=("chunk", (key, co)),
                        is_store=False,
                        expect=model.get((key, co)))
        if name == "read_all":
            def run():
                acc, pio = open_pio()
                return [pio.read_chunk("s0", co) for co in grid0]
            return dict(prepare=prepare, holder=holder, label=name, run=run, target=None, is_store=False,
                        expect=[model[("s0", co)] for co in grid0])
        if name == "fetch_file":
            def run():
                acc = open_acc()
                return acc.fetch_file("aux.bin")
            return dict(prepare=prepare, holder=holder, label=name, run=run, target=("file", "aux.bin"),
                        is_store=False, expect=files["aux.bin"])
        if name in ("file_exists", "file_exists_absent"):
            fname = "aux.bin" if name == "file_exists" else "nothing.bin"

            def run():
                acc = open_acc()
                return acc.file_exists(fname)
            return dict(prepare=prepare, holder=holder, label=name, run=run, target=("file", fname),
                        is_store=False, expect=(name == "file_exists"),
                        is_probe=True)
        if name == "pyramid":
            # the second level computed from the first by the real driver:
            # many reads of stored chunks interleaved with writes (and, for
            # sharded storage, the close() between levels)
            from neuroglancer_scripts import downscaling, dyadic_pyramid
            ds = downscaling.get_downscaler("stride")
            want = {}
            big = np.zeros((sc["nchan"],) + tuple(reversed(s0["size"])),
                           dtype=np.dtype(sc["dtype"]))
            for co in grid0:
                big[:, co[4]:co[5], co[2]:co[3], co[0]:co[1]] = model[
                    ("s0", co)]
            small = ds.downscale(big, [1 if a == b else 2 for a, b in
                                       zip(s0["size"], s1["size"])])
            for co in grid1:
                want[co] = np.ascontiguousarray(
                    small[:, co[4]:co[5], co[2]:co[3], co[0]:co[1]])

            def run():
                acc, pio = open_pio()
                dyadic_pyramid.compute_dyadic_scales(pio, ds)
            return dict(prepare=prepare, holder=holder, label=name, run=run, target=("scale", "s1"),
                        new=want, is_store=True)
        if name == "session":
            import random
            order = list(range(len(grid1)))
            random.Random(opd["order_seed"]).shuffle(order)
            arrs = {co: dsutil.voxels(sc["dtype"], sc["nchan"], co,
                                      sc["salt"] + 11, labels)
                    for co in grid1}

            def run():
                holder.pop("closing", None)
                if opd["via_url"]:
                    acc = get_accessor_for_url(DS)
                else:
                    acc = ShardedFileAccessor(DS, strategy=sc["strategy"])
                holder["session_acc"] = acc
                pio = precomputed_io.get_IO_for_existing_dataset(acc)
                for i in order:
                    pio.write_chunk(arrs[grid1[i]], "s1", grid1[i])
                holder["closing"] = True
                # the CLI relies on the accessor's exit handler; accessors
                # without one (plain files) have nothing to flush
                if hasattr(acc, "close"):
                    acc.close()
            return dict(prepare=prepare, holder=holder, label=name, run=run, target=("scale", "s1"),
                        new=arrs, is_store=True)
        raise HarnessError(f"unknown op {name}")

    # ------------------------------------------------------------------
    def execute(self, trace):
        import numpy as np
        from sim import dsutil
        from sim.simfs import PLAUSIBLE, SimCrash, mounted
        from neuroglancer_scripts.accessor import DataAccessError
        sc, opd = trace["scenario"], trace["op"]
        if sc["kind"] in ("http", "sharded_http"):
            return self._execute_http(trace)
        res = Result()
        log = EventLog()
        info = self._info(sc)
        base, model, files = self._base(sc, info)
        op = self._make_op(sc, opd, info, model, files)
        log.add("BASE", base.tree_hash())
        sigs = set()
        steps = 0
        evals = 0
        s1_items = [("s1", co) for co in dsutil.chunk_grid(
            info["scales"][1]["size"], info["scales"][1]["chunk_sizes"][0])]

        # ---- reference fault-free execution: learn the raw calls --------
        fs = base.clone(log)
        fs.track_sites = True
        with mounted(fs):
            op["prepare"]()
            fs.begin_window(record=True)
            st, v = sut(op["run"])
            calls = list(fs.calls)
            fs.end_window()
        steps += fs.total_calls
        base_tree = base.tree_hash(DS)
        cold_file = bool(sc.get("cold")) and sc["kind"] == "file"
        expect_absent = op["label"] == "read_absent"
        if op.get("must_fail"):
            from neuroglancer_scripts.accessor import (
                get_accessor_for_url as _gafu)
            if st == "ok":
                res.violate("C18/refusal-missing",
                            f"{sc['kind']}/{op['label']} returned normally "
                            "although the name exists and overwrite=False")
                return self._fin(res, log, steps, 1, sigs)
            if not isinstance(v, (DataAccessError, OSError)):
                res.violate("C18/unrelated-exception",
                            f"{sc['kind']}/{op['label']}: refused with "
                            f"{excname(v)} instead of a data-access / I/O "
                            "error",
                            key=f"C18/exc/{sc['kind']}/{op['label']}/"
                            f"{excname(v)}")
            with mounted(fs):
                fs.restart()
                after = dsutil.read_dataset(DS, info, which=sorted(model))
                a2 = _gafu(DS, _acc_opts(sc))
                s3, got3 = sut(a2.fetch_file, "aux.bin")
            bad = [k for k in sorted(model) if not (
                after[k][0] == "ok" and np.array_equal(after[k][1],
                                                       model[k]))]
            if bad or not (s3 == "ok" and got3 == files["aux.bin"]):
                res.violate(
                    "C18/collateral",
                    f"{sc['kind']}/{op['label']}: the refused store "
                    f"(no fault injected) damaged earlier data: chunks "
                    f"{bad[:3]} aux.bin {'ok' if s3 == 'ok' and got3 == files['aux.bin'] else 'changed'}",
                    key=f"C18/collateral/{sc['kind']}/{op['label']}/natural")
                return self._fin(res, log, steps, 1, sigs)
            sigs.add(f"{sc['kind']}|{op['label']}|natural-EEXIST")
        elif expect_absent:
            if st == "ok":
                res.violate("C18/absent-returns-data",
                            f"{sc['kind']}/read_absent returned data for a "
                            "never-stored chunk")
                return self._fin(res, log, steps, 1, sigs)
        elif st == "exc":
            res.violate("C18/fault-free-op-fails",
                        f"{sc['kind']}/{op['label']} raised {v!r} without "
                        "any fault",
                        key=f"C18/fault-free/{sc['kind']}/{op['label']}/"
                        f"{excname(v)}")
            return self._fin(res, log, steps, 1, sigs)
        ref_tree = fs.tree_hash(DS)

        # ---- build the list of fault plans -------------------------------
        plans = []
        faults = trace["faults"]
        if faults == "enum":
            enum_calls = calls
            if len(calls) > 40 and op["label"] == "pyramid":
                # long operations: a deterministic spread of 40 call sites
                # (first and last 8 always, the rest evenly)
                mid = calls[8:-8]
                step = len(mid) / 24.0
                enum_calls = calls[:8] + [mid[int(j * step)]
                                          for j in range(24)] + calls[-8:]
                res.probe("long_operation_sampled")
            for (k, kind, path, site, _d) in enum_calls:
                for e in PLAUSIBLE.get(kind, []):
                    plans.append([[k, ["errno", e]]])
                plans.append([[k, ["crash_before"]]])
                plans.append([[k, ["crash_after"]]])
                if kind == "write":
                    for frac in (1, 0.3, 0.5, 0.8):
                        plans.append([[k, ["torn", frac]]])
                    plans.append([[k, ["short", 0.5]],
                                  [k + 1, ["errno", "ENOSPC"]]])
                    # a short write on its own is legal and benign: whoever
                    # issued the write has to continue it
                    plans.append([[k, ["short", 0.5]]])
                    plans.append([[k, ["short", 1]]])
        elif isinstance(faults, dict):
            import random
            rng = random.Random(faults["seed"])
            for _ in range(12):
                plan = []
                for _j in range(faults["random"]):
                    k, kind, path, site, _d = rng.choice(calls)
                    k = min(len(calls) + 3, k + rng.randint(0, 2))
                    r = rng.random()
                    if r < 0.6:
                        plan.append([k, ["errno", rng.choice(
                            PLAUSIBLE.get(kind, ["EIO"]))]])
                    elif r < 0.8:
                        plan.append([k, [rng.choice(["crash_before",
                                                     "crash_after"])]])
                    else:
                        plan.append([k, ["short", 0.5]])
                plans.append(sorted(plan, key=lambda p: p[0]))
            if faults.get("capacity") is not None:
                plans.append([["capacity", faults["capacity"]]])
        else:
            plans = [faults]            # explicit plan (replay)

        site_of = {k: (kind, site) for (k, kind, path, site, _d) in calls}
        all_fs = []

        # ---- execute each plan ---------------------------------------------
        for plan in plans:
            fs = base.clone(log)
            fs.track_sites = True
            all_fs.append(fs)
            pl = {}
            for k, act in plan:
                if k == "capacity":
                    fs.capacity = fs.used() + act
                    continue
                pl[k] = tuple(act)
            log.add("PLAN", repr(plan))
            narrow = {"faults": plan}
            crashed = False
            with mounted(fs):
                op["prepare"]()
                # resolve fractional short/torn sizes lazily in the FS
                fs.begin_window(_resolve_fractions(pl), record=True)
                try:
                    st, v = sut(op["run"])
                except SimCrash:
                    crashed = True
                    st, v = "crash", None
                if fs.dead and not crashed:
                    # the crash fired inside a generator / __del__ clean-up,
                    # where Python swallows exceptions: the process is dead
                    # all the same (no raw call can succeed any more)
                    crashed = True
                    st, v = "crash", None
                fired = dict(fs.fired)
                fired_calls = list(fs.calls)
                fs.end_window()
                fs.restart()
                fs.capacity = None
                evals += 1
                if not fired:
                    continue
                fkinds = sorted(fired)
                for k, act in plan:
                    if k == "capacity":
                        sigs.add(f"{sc['kind']}|{op['label']}|capacity")
                        continue
                    kind, site = site_of.get(k, ("?", "?"))
                    sigs.add(f"{sc['kind']}|{op['label']}|{site}|{kind}|"
                             f"{act[0]}{':' + str(act[1]) if act[0] == 'errno' else ''}")
                    if kind == "close" and act[0] == "errno":
                        res.probe("fault_on_close")
                    if act[0] == "torn":
                        res.probe("torn_write")
                for fk in fkinds:
                    res.fault(fk, fired[fk])
                where = (f"{sc['kind']}/{op['label']} plan={plan} "
                         f"(sites {[site_of.get(k) for k, _ in plan if k != 'capacity']})")

                # ---------- oracle: failed operation ----------------------
                # the kind of the call a fault actually hit comes from THIS
                # execution (ordinals of a multi-fault plan need not exist in
                # the fault-free reference)
                kind_at = {c[0]: c[1] for c in fired_calls}
                absent_errno = any(
                    act[0] == "errno" and act[1] == "ENOENT"
                    and kind_at.get(k, site_of.get(k, ("",))[0])
                    in ("stat", "open_r")
                    for k, act in plan if k != "capacity")
                if st == "exc":
                    ok_class = isinstance(v, (DataAccessError, OSError))
                    if not ok_class and not absent_errno:
                        res.violate(
                            "C18/unrelated-exception",
                            f"{where}: raised {excname(v)}: {v!s:.120} "
                            "instead of a data-access / I/O error",
                            key=f"C18/exc/{sc['kind']}/{op['label']}/"
                            f"{excname(v)}", narrow=narrow)
                elif st == "ok" and not op["is_store"]:
                    if not self._same(v, op.get("expect")) and not (
                            absent_errno and op.get("is_probe")):
                        res.violate(
                            "C18/normal-return-wrong",
                            f"{where}: returned normally with a value that "
                            "is not the stored one",
                            key=f"C18/wrong-return/{sc['kind']}/"
                            f"{op['label']}", narrow=narrow)
                    else:
                        res.probe("normal_return_effect_in_place")

                # An injected ENOENT on a probe *means absence*.  If it hit
                # the probe of `info` while a sharded dataset was being opened
                # (only reachable with several faults: the first one makes
                # the read of info fail, the ENOENT then answers the
                # existence check), the accessor was told that the dataset
                # has no info and legitimately took the documented plain
                # fallback: the store then did happen, in the plain layout.
                op["_told_absent"] = bool(absent_errno
                                          and sc["kind"] == "sharded"
                                          and len(plan) > 1)
                if op.get("must_fail") and st == "ok":
                    res.violate(
                        "C18/refusal-lost-under-fault",
                        f"{where}: the name exists and overwrite=False, yet "
                        "with this fault the store returned normally",
                        key=f"C18/refusal-lost/{sc['kind']}/{op['label']}",
                        narrow=narrow)
                # ---------- retries through the same handle ----------------
                retried = None
                if st == "exc" and not crashed and op["is_store"]:
                    if (op["label"] == "session"
                            and op["holder"].get("closing")):
                        # close() failed: a second close() on the same
                        # accessor may fail again, but if it returns normally
                        # everything must be in place (judged below)
                        s_r, v_r = sut(op["holder"]["session_acc"].close)
                        retried = ("close", s_r)
                        res.probe("retried_close_" + (
                            "ok" if s_r == "ok" else excname(v_r)))
                    elif cold_file and fs.tree_hash(DS) == base_tree:
                        # the failed attempt left no trace: the same handle,
                        # the same request and the same stored state must now
                        # behave like the fault-free reference
                        s_r, v_r = sut(op["run"])
                        retried = ("same", s_r)
                        want_ok = not op.get("must_fail")
                        if (s_r == "ok") != want_ok or (
                                want_ok and fs.tree_hash(DS) != ref_tree):
                            res.violate(
                                "C18/handle-poisoned-by-failure",
                                f"{where}: the failed attempt left the "
                                "stored state untouched, yet repeating the "
                                "request through the same accessor (no "
                                "fault) "
                                + (f"raises {excname(v_r)}: {v_r!s:.80}"
                                   if s_r == "exc" else
                                   "does not produce the reference result"),
                                key=f"C18/handle-poisoned/{sc['kind']}/"
                                f"{op['label']}", narrow=narrow)
                        else:
                            res.probe("same_handle_retry_consistent")
                        if s_r == "ok" and want_ok:
                            st = "ok"     # judge the final state as a success
                if retried and retried[0] == "close" and retried[1] == "ok":
                    st = "ok"             # close() claimed success
                # ---------- what a fresh process finds ----------------------
                after = dsutil.read_dataset(
                    DS, info, which=sorted(model) + (
                        s1_items if op["label"] in ("write_new", "session",
                                                    "pyramid")
                        else []))
                tgt = op["target"]
                for item, want in sorted(model.items(),
                                         key=lambda kv: kv[0]):
                    got = after[item]
                    is_target = (tgt is not None and tgt[0] == "chunk"
                                 and tgt[1] == item)
                    if is_target:
                        continue
                    if got[0] == "ok" and np.array_equal(got[1], want):
                        continue
                    if crashed and got[0] != "ok":
                        continue     # literal reading of the crash clause
                    res.violate(
                        "C18/collateral",
                        f"{where}: earlier chunk {item} now reads as "
                        f"{got[0]}:{got[1] if got[0] != 'ok' else 'other values'}"
                        f" (outcome {st})",
                        key=f"C18/collateral/{sc['kind']}/{op['label']}/"
                        f"{'crash' if crashed else 'errno'}/{got[0]}",
                        narrow=narrow)
                    break
                # the operation's own target
                if op.get("must_fail") and tgt[0] == "chunk" and not crashed:
                    got = after[tgt[1]]
                    old = model.get(tgt[1])
                    if not (got[0] == "ok" and np.array_equal(got[1], old)):
                        res.violate(
                            "C18/collateral",
                            f"{where}: the store was not allowed to "
                            f"overwrite, yet {tgt[1]} now reads as {got[0]}",
                            key=f"C18/collateral/{sc['kind']}/{op['label']}"
                            "/target", narrow=narrow)
                elif op["is_store"] and tgt[0] == "chunk":
                    got = after[tgt[1]]
                    old = model.get(tgt[1])
                    self._judge_target(res, where, sc, op, st, crashed, got,
                                       old, op["new"], narrow, str(tgt[1]))
                elif op["is_store"] and tgt[0] == "scale":
                    for item in s1_items:
                        got = after[item]
                        self._judge_target(res, where, sc, op, st, crashed,
                                           got, None, op["new"][item[1]],
                                           narrow, str(item))
                    if crashed:
                        self._shard_phase_probe(res, fired_calls, plan)
                elif op["is_store"] and tgt[0] == "file":
                    from neuroglancer_scripts.accessor import (
                        get_accessor_for_url)
                    a2 = get_accessor_for_url(DS, _acc_opts(sc))
                    s2, got = sut(a2.fetch_file, tgt[1])
                    old = files.get(tgt[1])
                    # plain files have no decoder: a partial file left by
                    # an interrupted / failed store is outside the statement
                    # (it speaks of chunks); recorded only.
                    if s2 == "ok" and got not in (old, op["new"]):
                        res.probe("file_target_partial_after_fault")
                    if st == "ok" and not (s2 == "ok"
                                             and got == op["new"]):
                        res.violate(
                            "C18/normal-return-no-effect",
                            f"{where}: store returned normally although a "
                            "fault fired, but the file does not read back as "
                            "the new content",
                            key=f"C18/no-effect/{sc['kind']}/{op['label']}",
                            narrow=narrow)
                    elif st == "ok":
                        res.probe("normal_return_effect_in_place")
                    s3, got3 = sut(a2.fetch_file, "aux.bin")
                    if tgt[1] != "aux.bin" and not (
                            s3 == "ok" and got3 == files["aux.bin"]
                            ) and not crashed:
                        res.violate("C18/collateral",
                                    f"{where}: aux.bin damaged",
                                    key=f"C18/collateral/{sc['kind']}/"
                                    f"{op['label']}/file", narrow=narrow)
            if res.violations:
                break
        res.evals = evals + 1
        steps += sum(f.total_calls for f in all_fs)
        return self._fin(res, log, steps, evals + 1, sigs)

    # ------------------------------------------------------------------
    def _execute_http(self, trace):
        """HTTP accessors: every request of the operation is failed once with
        every transport/server fault kind."""
        import numpy as np
        from sim import dsutil
        from sim.simfs import mounted
        from sim.simhttp import FAULT_KINDS, SimServer, serving, to_legacy
        from neuroglancer_scripts.accessor import (DataAccessError,
                                                   get_accessor_for_url)
        sc, opd = trace["scenario"], trace["op"]
        res = Result()
        log = EventLog()
        sc2 = dict(sc, kind="sharded" if sc["kind"] == "sharded_http"
                   else "file")
        info = self._info(sc2)
        fs, model, files = self._base(sc2, info)
        fs.log = log
        sharded = sc["kind"] == "sharded_http"
        if sharded and sc.get("legacy"):
            to_legacy(fs, DS, {"s0": sc["bits"][0], "s1": sc["bits"][0]})
        if sharded:
            mode = "plain"
        elif not sc["flat"]:
            mode = "nginx"
        else:
            mode = "gzstatic" if sc["gzip"] else "plain"
        server = SimServer(fs, DS, "/ds/", mode, sc.get("zero_range", "416"),
                           log)
        s0, s1 = info["scales"]
        grid0 = dsutil.chunk_grid(s0["size"], s0["chunk_sizes"][0])
        grid1 = dsutil.chunk_grid(s1["size"], s1["chunk_sizes"][0])
        name = opd["name"]
        url = sc.get("url", "http://sim.test/ds/")
        cold = bool(sc.get("cold"))
        holder = [None]

        def accessor():
            # fresh: built inside the fault window; cold: prepared outside
            if cold:
                return holder[0]
            return get_accessor_for_url(url)

        with mounted(fs):
            local = get_accessor_for_url(DS)
            if name == "http_fetch_chunk":
                key, co = "s0", grid0[opd["ci"] % len(grid0)]
                expect = ("bytes", local.fetch_chunk(key, co))
                run = lambda: accessor().fetch_chunk(key, co)
            elif name == "http_fetch_absent":
                key, co = "s1", grid1[opd["ci"] % len(grid1)]
                expect = ("raise", None)
                run = lambda: accessor().fetch_chunk(key, co)
            elif name == "http_fetch_info":
                expect = ("bytes", local.fetch_file("info"))
                run = lambda: accessor().fetch_file("info")
            elif name == "http_exists":
                expect = ("bool", True)
                run = lambda: accessor().file_exists("info")
            else:
                expect = ("bool", False)
                run = lambda: accessor().file_exists("nothing.bin")
        sigs = set()
        evals = 0
        with mounted(fs), serving(server):
            if cold:
                holder[0] = get_accessor_for_url(url)
            server.begin_window(record=True)
            st, v = sut(run)
            reqs = list(server.requests)
            server.end_window()
            if expect[0] == "raise":
                if st == "ok" and not (sharded and len(v) == 0):
                    res.violate("C18/absent-returns-data",
                                f"{sc['kind']}/{name}: never-stored chunk "
                                f"fetched as {len(v)} B")
            elif st == "exc":
                res.violate("C18/fault-free-op-fails",
                            f"{sc['kind']}/{name} raised {v!r} without any "
                            "fault",
                            key=f"C18/fault-free/{sc['kind']}/{name}/"
                            f"{excname(v)}")
            elif v != expect[1]:
                res.violate("C18/fault-free-op-wrong",
                            f"{sc['kind']}/{name} returned a wrong value "
                            "without any fault")
            faults = trace["faults"]
            plans = []
            if faults == "enum":
                for (k, method, path, rng) in reqs:
                    for fk in FAULT_KINDS:
                        plans.append([[k, [fk]]])
            elif isinstance(faults, dict):
                import random
                r = random.Random(faults["seed"])
                for _ in range(16):
                    plan = {}
                    for _j in range(faults["random"]):
                        k = r.choice(reqs)[0] if reqs else 0
                        plan[k] = [r.choice(FAULT_KINDS)]
                    plans.append([[k, plan[k]] for k in sorted(plan)])
            else:
                plans = [faults]
            for plan in plans:
                if res.violations:
                    break
                before = dict(server.fired)
                if cold:
                    holder[0] = get_accessor_for_url(url)
                server.begin_window({k: tuple(a) for k, a in plan})
                log.add("PLAN", repr(plan))
                st, v = sut(run)
                server.end_window()
                evals += 1
                fired = [k for k, n in server.fired.items()
                         if n != before.get(k, 0)]
                if not fired:
                    continue
                for fk in fired:
                    res.fault(fk)
                roles = []
                for k, a in plan:
                    rq = next((q for q in reqs if q[0] == k), None)
                    role = "?"
                    if rq:
                        role = ("info" if rq[2].endswith("/info") else
                                "head" if rq[1] == "HEAD" else
                                "range" if rq[3] else "get")
                    roles.append(role)
                    sigs.add(f"{sc['kind']}|{name}|{role}|{a[0]}|"
                             f"{'ok' if st == 'ok' else excname(v)}")
                where = (f"{sc['kind']}/{name} plan={plan} on "
                         f"{[(q[1], q[2], q[3]) for q in reqs if q[0] in dict(plan)]}")
                narrow = {"faults": plan}
                is404 = any(a[0] == "status:404" for _k, a in plan)
                if st == "exc":
                    if not isinstance(v, (DataAccessError, OSError)) and not (
                            is404 or expect[0] == "raise"):
                        res.violate(
                            "C18/unrelated-exception",
                            f"{where}: raised {excname(v)}: {v!s:.100} "
                            "instead of a data-access / I/O error",
                            key=f"C18/exc/{sc['kind']}/{name}/{excname(v)}",
                            narrow=narrow)
                else:
                    good = (expect[0] != "raise" and v == expect[1]) or (
                        expect[0] == "raise" and sharded and len(v) == 0)
                    if expect[0] == "bool" and is404 and v is False:
                        good = True          # 404 means absent
                    if not good:
                        res.violate(
                            "C18/normal-return-wrong",
                            f"{where}: returned normally with "
                            f"{'%d B' % len(v) if isinstance(v, bytes) else v!r}"
                            " that is not the stored value",
                            key=f"C18/wrong-return/{sc['kind']}/{name}/"
                            + "+".join(sorted(fired)), narrow=narrow)
                    else:
                        res.probe("normal_return_effect_in_place")
                if cold and expect[0] in ("bytes", "bool") and (
                        not res.violations):
                    # the faults have stopped: the same accessor object must
                    # serve the request ("everything stored earlier remains
                    # readable")
                    s2, v2 = sut(run)
                    if not (s2 == "ok" and v2 == expect[1]):
                        res.violate(
                            "C18/not-readable-after-faults",
                            f"{where}: once the faults stopped, the same "
                            f"accessor answers "
                            f"{excname(v2) if s2 == 'exc' else 'a wrong value'}"
                            " for the same request",
                            key=f"C18/not-readable-after-faults/"
                            f"{sc['kind']}/{name}/"
                            f"{excname(v2) if s2 == 'exc' else 'wrong'}",
                            narrow=narrow)
                    else:
                        res.probe("same_accessor_recovers")
        res.evals = evals + 1
        res.digest = log.digest()
        res.steps = fs.total_calls + server.total
        res.sigs = sorted(sigs)
        res.nontrivial = bool(sigs)
        res.info = {"fault_executions": evals, "requests": len(reqs)}
        return res

    # ------------------------------------------------------------------
    def _same(self, got, want):
        import numpy as np
        if isinstance(want, list):
            return (isinstance(got, list) and len(got) == len(want)
                    and all(self._same(g, w) for g, w in zip(got, want)))
        if isinstance(want, np.ndarray):
            return (isinstance(got, np.ndarray) and got.shape == want.shape
                    and np.array_equal(got, want))
        if want is None:
            return False
        return got == want

    def _judge_target(self, res, where, sc, op, st, crashed, got, old, new,
                      narrow, what):
        import numpy as np
        mode = "crash" if crashed else st
        if got[0] == "ok":
            is_new = (new is not None and got[1].shape == new.shape
                      and np.array_equal(got[1], new))
            is_old = (old is not None and got[1].shape == old.shape
                      and np.array_equal(got[1], old))
            if not (is_new or is_old):
                res.violate(
                    "C18/target-third-value",
                    f"{where}: {what} decodes to values that are neither the "
                    f"old nor the new content (outcome {mode})",
                    key=f"C18/third-value/{sc['kind']}/{op['label']}/{mode}",
                    narrow=narrow)
                return
            if crashed:
                res.probe("target_new_after_crash" if is_new
                          else "target_old_after_crash")
            if st == "ok" and not is_new and op.get("_told_absent"):
                res.probe("sharded_store_after_info_reported_absent")
            elif st == "ok" and not is_new:
                res.violate(
                    "C18/normal-return-no-effect",
                    f"{where}: store returned normally although a fault "
                    f"fired, but {what} still reads as the old content",
                    key=f"C18/no-effect/{sc['kind']}/{op['label']}",
                    narrow=narrow)
            elif st == "ok":
                res.probe("normal_return_effect_in_place")
        else:
            if crashed:
                res.probe("target_absent_after_crash" if got[0] == "absent"
                          else "target_invalid_after_crash")
                res.probe("after_crash_read_raises_" + str(got[1]))
            if st == "ok" and op.get("_told_absent"):
                res.probe("sharded_store_after_info_reported_absent")
            elif st == "ok":
                res.violate(
                    "C18/normal-return-no-effect",
                    f"{where}: store returned normally although a fault "
                    f"fired, but {what} reads as {got[0]} ({got[1]})",
                    key=f"C18/no-effect/{sc['kind']}/{op['label']}",
                    narrow=narrow)

    def _shard_phase_probe(self, res, fired_calls, plan):
        """Which phase of Shard.close did the interruption land in?  The
        shard index is the write at offset 0 that follows earlier writes to
        the same .shard file (Shard.close seeks back to 0 for it)."""
        if not fired_calls:
            return
        k, kind, path, site, detail = fired_calls[-1]
        if not path.endswith(".shard"):
            res.probe("crash_outside_shard_file")
            return
        act = next((a[0] for kk, a in plan if kk == k), "?")
        earlier = [c for c in fired_calls[:-1]
                   if c[2] == path and c[1] == "write"]
        if kind == "write" and detail[1] == 0 and earlier:
            if act == "crash_before":
                res.probe("crash_before_shard_index")
            elif act == "torn":
                res.probe("crash_in_shard_index")
            else:
                res.probe("crash_after_shard_index")
        elif kind == "write":
            res.probe("crash_in_shard_data")
        elif kind == "close" and earlier:
            res.probe("crash_at_shard_close")
        else:
            res.probe("crash_in_shard_header")

    def _fin(self, res, log, steps, evals, sigs):
        res.digest = log.digest()
        res.steps = steps
        res.sigs = sorted(sigs)
        res.nontrivial = bool(sigs)
        res.sig = ""
        res.info = {"fault_executions": evals, "distinct_sites": len(sigs)}
        return res

    def shrink(self, trace):
        sc, opd, faults = trace["scenario"], trace["op"], trace["faults"]
        if isinstance(faults, list) and len(faults) > 1:
            for j in range(len(faults)):
                yield dict(trace, faults=faults[:j] + faults[j + 1:])
        for k, simple in (("nchan", 1), ("gzip", False), ("flat", True),
                          ("blksize", 4096), ("ienc", "raw"), ("denc", "raw"),
                          ("enc", "raw"), ("strategy", "in memory")):
            if sc[k] != simple:
                s2 = dict(sc, **{k: simple})
                if k == "enc" and sc["dtype"] not in ("uint32", "uint64"):
                    continue
                yield dict(trace, scenario=s2)
        if sc["bits"] != [0, 0, 0]:
            yield dict(trace, scenario=dict(sc, bits=[0, 0, 0]))


def _resolve_fractions(plan):
    """('short'|'torn', 0.5) -> marker resolved by SimRaw at call time."""
    out = {}
    for k, act in plan.items():
        if act[0] in ("short", "torn") and isinstance(act[1], float):
            out[k] = (act[0], -act[1])    # negative = fraction of request
        else:
            out[k] = act
    return out


if __name__ == "__main__":
    sys.exit(core.main(C18(), os.path.abspath(__file__)))
