#!/venv/bin/python
"""C10 -- decoders under storage corruption.

A valid chunk is written with the real PrecomputedIO.write_chunk on SimFS;
the simulated disk then corrupts the *stored payload* (torn write, stale
tail, bit flips, lost sector, misdirected block, random replacement, targeted
field edits); a fresh PrecomputedIO.read_chunk reads it.  The outcome must be
an array of exactly the requested shape and dtype or InvalidFormatError.
DESIGN.md section 5 (C10)."""
import os
import signal
import struct
import sys

sys.path.insert(0, os.path.dirname(os.path.dirname(os.path.abspath(__file__))))
from sim import core  # noqa: E402
from sim.core import Check, EventLog, Result, excname, payload, sut  # noqa

DS = "/simfs/ds"
WATCHDOG_CPU_S = 10.0


class Hang(BaseException):
    """Raised by the watchdog.  A BaseException so that neither sut() nor
    the repository's ``except Exception`` clauses can absorb it."""


def _on_alarm(signum, frame):
    raise Hang()


class C10(Check):
    pid = "C10"
    level = "exploration"
    rule = ("one run = one valid chunk (encoding x data type x channels x "
            "shape x block size x label distribution) stored through the "
            "real writer on a storage kind (plain file, gzip file, sharded "
            "raw/gzip), then 12-40 seeded corruptions of the stored payload, "
            "(torn, stale tail, bit flips, lost sector, misdirected block or "
            "whole payload of another shape, random replacement, header-field "
            "edits, well-formed images of other containers), each read back "
            "by a fresh PrecomputedIO; evaluations = corrupted "
            "reads; distinct = distinct (encoding, data type, storage kind, "
            "corruption kind, outcome class); non-trivial = the corrupted "
            "payload differs from the valid one and reached the decoder")
    assumptions = [
        "corruption is applied to the chunk payload; for gzip storage layers "
        "the payload is re-framed in a valid gzip stream (damage to the gzip "
        "frame itself is C18's subject)",
        "an array result is accepted whatever its values (a decoder cannot "
        "know the original), provided shape and dtype are exact",
        "hang = a single decode consuming more than 10 s of CPU time "
        "(ITIMER_PROF watchdog; CPU time, so machine load cannot trigger it)",
        "the uncorrupted control read of every scenario must succeed and "
        "equal the written array",
    ]
    components = {
        "real": ["chunk_encoding decoders", "_compressed_segmentation",
                 "_jpeg + PIL", "precomputed_io", "file / sharded accessors"],
        "simulated": ["raw file I/O (SimFS)", "stored-byte corruption"],
    }
    tiers = {"quick": dict(runs=5000, budget=60),
             "thorough": dict(runs=40000, budget=720)}
    expected_probes = ["outcome_array", "outcome_InvalidFormatError",
                      "kind_truncate", "kind_field_channel_offset",
                      "kind_field_block_header", "kind_jpeg_sof",
                      "kind_misdirect", "control_ok", "kind_foreign_image",
                      "valid_foreign_layout"]

    def setup_worker(self):
        from sim import simenv, simfs, simproc
        simfs.install()
        simproc.install()
        simenv.install_clock()
        signal.signal(signal.SIGPROF, _on_alarm)

    # ------------------------------------------------------------------
    def gen(self, rng, tier, idx):
        enc = rng.choice(["raw", "compressed_segmentation",
                          "compressed_segmentation", "jpeg", "jpeg"])
        if enc == "raw":
            dtype = rng.choice(["uint8", "uint16", "uint32", "uint64",
                                "float32"])
            nchan = rng.choice([1, 2, 3])
        elif enc == "jpeg":
            dtype, nchan = "uint8", rng.choice([1, 3])
        else:
            dtype = rng.choice(["uint32", "uint64"])
            nchan = rng.choice([1, 2, 3])
        shape = [rng.randint(1, 6) for _ in range(3)]
        b = rng.choice([1, 2, 4, 8])
        block = [b, b, b] if rng.random() < 0.6 else [
            rng.choice([1, 2, 4, 8]) for _ in range(3)]
        scn = {"enc": enc, "dtype": dtype, "nchan": nchan, "shape": shape,
               "block": block,
               "labels": rng.choice([1, 2, 3, 5, 17, 70000, 0]),
               "storage": rng.choice(["plain", "gz", "sharded_raw",
                                      "sharded_gzip"]),
               "blocky": rng.random() < 0.35,
               # uint64 labels with the top bit set (>= 2**63)
               "high": rng.random() < 0.25,
               "salt": rng.randrange(1000)}
        n = rng.randint(12, 40 if tier == "thorough" else 24)
        kinds = ["truncate", "truncate", "extend", "flip", "flip", "zero",
                 "misdirect", "random", "field", "field", "field",
                 "whole_other"]
        if enc == "jpeg":
            kinds += ["foreign_image", "foreign_image"]
        cors = []
        for _ in range(n):
            k = rng.choice(kinds)
            c = {"kind": k, "a": rng.randrange(1 << 16),
                 "b": rng.randrange(1 << 16), "seed": rng.randrange(1 << 30),
                 "n": rng.choice([1, 2, 3, 4, 8, 64, 512, 3000])}
            cors.append(c)
        return {"scenario": scn, "corruptions": cors}

    # ------------------------------------------------------------------
    def _corrupt(self, scn, valid, other, c):
        """Return (label, corrupted bytes)."""
        L = len(valid)
        k = c["kind"]
        buf = bytearray(valid)
        if k == "truncate":
            # interesting boundaries as well as arbitrary cuts
            cuts = sorted(set([0, 1, 3, 4, L // 2, L - 1, L - 4,
                               4 * scn["nchan"], 4 * scn["nchan"] + 8,
                               c["a"] % (L + 1)]))
            cut = [x for x in cuts if 0 <= x < L]
            at = cut[c["b"] % len(cut)] if cut else 0
            return "truncate", bytes(buf[:at])
        if k == "extend":
            return "extend", bytes(buf) + payload(c["seed"], c["n"])
        if k == "flip":
            for j in range(1 + c["n"] % 3):
                if L:
                    pos = (c["a"] * (j + 1) + c["b"]) % L
                    buf[pos] ^= 1 << ((c["seed"] >> j) & 7)
            return "flip", bytes(buf)
        if k == "zero":
            start = ((c["a"] % (L + 1)) // 512) * 512 if L > 512 else 0
            ln = 512 if L > 512 else max(1, min(L, c["n"]))
            buf[start:start + ln] = b"\0" * len(buf[start:start + ln])
            return "zero", bytes(buf)
        if k == "misdirect":
            if not other:
                return "misdirect", bytes(other)
            ln = max(1, min(len(other), c["n"]))
            src = c["a"] % max(1, len(other) - ln + 1)
            dst = c["b"] % max(1, L - ln + 1) if L else 0
            buf[dst:dst + ln] = other[src:src + ln]
            return "misdirect", bytes(buf)
        if k == "random":
            return "random", payload(c["seed"], c["n"])
        # targeted field edits
        if scn["enc"] == "compressed_segmentation" and L >= 4:
            vals = [0, 1, 2, 0xFFFFFFFF, L // 4, L // 4 - 1, L // 4 + 1,
                    c["seed"] & 0xFFFFFFFF, 0x00FFFFFF, 0x7FFFFFFF]
            v = vals[c["b"] % len(vals)]
            if c["a"] % 2 == 0:
                ch = c["a"] // 2 % scn["nchan"]
                struct.pack_into("<I", buf, 4 * ch, v)
                return "field_channel_offset", bytes(buf)
            ch_off = 4 * struct.unpack_from("<I", valid, 0)[0]
            nblocks = 1
            for d in range(3):
                nblocks *= -(-scn["shape"][d] // scn["block"][d])
            bi = (c["a"] // 2) % nblocks
            off = ch_off + 8 * bi
            if off + 8 <= L:
                which = c["seed"] % 3
                if which == 0:      # table offset (24 bits)
                    w = struct.unpack_from("<I", valid, off)[0]
                    struct.pack_into("<I", buf, off,
                                     (w & 0xFF000000) | (v & 0xFFFFFF))
                elif which == 1:    # bit width
                    buf[off + 3] = [0, 1, 2, 3, 4, 8, 16, 32, 33, 64,
                                    255][c["b"] % 11]
                else:               # encoded values offset
                    struct.pack_into("<I", buf, off + 4, v)
                return "field_block_header", bytes(buf)
            return "field_block_header", bytes(buf[:off])
        if scn["enc"] == "jpeg":
            # walk the marker segments to find SOF0/SOF2
            i = 2
            sof = None
            while i + 4 <= L and valid[i] == 0xFF:
                m = valid[i + 1]
                ln = struct.unpack_from(">H", valid, i + 2)[0]
                if m in (0xC0, 0xC1, 0xC2):
                    sof = i
                    break
                i += 2 + ln
            if sof is not None and sof + 10 <= L:
                which = c["a"] % 5
                dims = [0, 1, 2, 7, 255, 65535, c["b"] % 64]
                if which == 4:      # both dimensions (huge / tiny images)
                    big = [65535, 30000, 20000, 1, 0][c["b"] % 5]
                    struct.pack_into(">HH", buf, sof + 5, big,
                                     [65535, 30000, 3][c["seed"] % 3])
                    return "jpeg_sof", bytes(buf)
                if which == 0:
                    struct.pack_into(">H", buf, sof + 5,
                                     dims[c["b"] % len(dims)])   # height
                elif which == 1:
                    struct.pack_into(">H", buf, sof + 7,
                                     dims[c["seed"] % len(dims)])  # width
                elif which == 2:
                    buf[sof + 9] = [0, 1, 2, 3, 4, 255][c["b"] % 6]  # ncomp
                else:
                    return "jpeg_sof", bytes(buf[:sof + (c["b"] % 12)])
                return "jpeg_sof", bytes(buf)
        # raw (or fallback): length-preserving word edit
        if L >= 4:
            struct.pack_into("<I", buf, (c["a"] % (L // 4)) * 4,
                             c["seed"] & 0xFFFFFFFF)
        return "field_word", bytes(buf)

    def _foreign_image(self, scn, a0, c):
        """A well-formed image of ANOTHER container / pixel type with exactly
        the requested number of pixels (a file of the wrong kind stored under
        the chunk's name)."""
        import io
        import numpy as np
        import PIL.Image
        nchan, sz, sy, sx = a0.shape
        flat = a0.reshape(nchan, sz * sy, sx)
        which = c["a"] % 6
        if nchan == 3:
            img = PIL.Image.fromarray(np.moveaxis(flat, 0, -1))
            fmt = ["PNG", "TIFF", "BMP", "PNG", "TIFF", "BMP"][which]
            if which >= 3:
                img = img.convert("RGBA") if fmt != "BMP" else img.convert(
                    "L")
        else:
            g = flat[0]
            if which == 0:
                img, fmt = PIL.Image.fromarray(g.astype(np.uint16)), "PNG"
            elif which == 1:
                img, fmt = PIL.Image.fromarray(g > 100), "PNG"
            elif which == 2:
                img, fmt = PIL.Image.fromarray(g.astype(np.int32)), "TIFF"
            elif which == 3:
                img, fmt = PIL.Image.fromarray(g.astype(np.float32)), "TIFF"
            elif which == 4:
                img, fmt = PIL.Image.fromarray(g), "PNG"
            else:
                img, fmt = PIL.Image.fromarray(g).convert("P"), "GIF"
        buf = io.BytesIO()
        img.save(buf, format=fmt)
        return buf.getvalue()

    def _relayout_cseg(self, valid, scn, a0):
        """A second VALID encoding of the same array, as another encoder
        could emit it: a uniform (0-bit) block re-uses, as its one-entry
        table, the first entry of a later block's larger table.  Returns
        None when the chunk offers no such pair."""
        import numpy as np
        itemsize = np.dtype(scn["dtype"]).itemsize
        buf = bytearray(valid)
        nblocks = 1
        for d in range(3):
            nblocks *= -(-scn["shape"][d] // scn["block"][d])
        ch = 4 * struct.unpack_from("<I", valid, 0)[0]
        heads = [struct.unpack_from("<II", valid, ch + 8 * i)
                 for i in range(nblocks)]

        def first_entry(i):
            off = ch + 4 * (heads[i][0] & 0xFFFFFF)
            return bytes(valid[off:off + itemsize])
        for i in range(nblocks):
            if heads[i][0] >> 24 != 0:
                continue
            for j in range(i + 1, nblocks):
                if heads[j][0] >> 24 == 0:
                    continue
                if (heads[j][0] & 0xFFFFFF) == (heads[i][0] & 0xFFFFFF):
                    continue
                if first_entry(j) == first_entry(i):
                    struct.pack_into("<I", buf, ch + 8 * i,
                                     heads[j][0] & 0xFFFFFF)
                    return bytes(buf)
        return None

    # ------------------------------------------------------------------
    def execute(self, trace):
        import gzip as gzipmod
        import numpy as np
        from sim import dsutil
        from sim.simfs import SimFS, mounted
        from neuroglancer_scripts import precomputed_io
        from neuroglancer_scripts.accessor import get_accessor_for_url
        from neuroglancer_scripts.chunk_encoding import InvalidFormatError
        from neuroglancer_scripts.sharded_file_accessor import (
            ShardedFileAccessor)
        scn = trace["scenario"]
        res = Result()
        log = EventLog()
        sx, sy, sz = scn["shape"]
        sharded = scn["storage"].startswith("sharded")
        cs = max(sx, sy, sz) if sharded else None
        size = [2 * sx + 1, sy, sz] if not sharded else [2 * cs + 1, cs, cs]
        chunk_sizes = [[sx, sy, sz]] if not sharded else [[cs, cs, cs]]
        sharding = None
        if sharded:
            e = "gzip" if scn["storage"] == "sharded_gzip" else "raw"
            sharding = [1, 1, 0, "raw", e]
        info = dsutil.make_info(scn["dtype"], scn["nchan"], [dict(
            key="k", size=size, cs=chunk_sizes, encoding=scn["enc"],
            block=scn["block"], sharding=sharding)])
        want_dtype = np.dtype(scn["dtype"]).newbyteorder("<")
        grid = dsutil.chunk_grid(size, chunk_sizes[0])
        co0, co1 = grid[0], grid[1]
        co_b = grid[-1] if grid[-1][1] - grid[-1][0] == 1 else next(
            g for g in grid if g[1] - g[0] == 1)      # 1-voxel-thick border
        labels = scn["labels"] or None

        def arr_for(co, salt):
            if scn["enc"] == "jpeg":
                return dsutil.ramp(scn["nchan"], co, salt)
            a = dsutil.voxels(scn["dtype"], scn["nchan"], co, salt,
                              labels if scn["enc"] != "raw" else None)
            if scn.get("high") and scn["dtype"] == "uint64":
                a = a | np.uint64(1 << 63)
            if scn.get("blocky") and scn["enc"] != "raw":
                # a uniform leading region holding the smallest label
                a = a.copy()
                a[:, :, :, :scn["block"][0]] = a.min()
            return a

        a0, a1 = arr_for(co0, scn["salt"]), arr_for(co1, scn["salt"] + 1)
        base = SimFS(log=log)
        base.dirs[DS] = True
        gz = scn["storage"] == "gz"
        with mounted(base):
            if sharded:
                base.put(DS + "/info", dsutil.info_bytes(info))
                acc = ShardedFileAccessor(DS, strategy="in memory")
                pio = precomputed_io.get_IO_for_existing_dataset(acc)
            else:
                acc = get_accessor_for_url(DS, {"flat": True, "gzip": gz})
                pio = precomputed_io.get_IO_for_new_dataset(info, acc)
            enc = pio._encoders["k"]
            st, valid = sut(enc.encode, a0)
            if st == "exc":
                # encoding valid data is C03's subject; nothing to corrupt
                res.digest = log.digest()
                res.info = {"skipped": "encode failed: " + excname(valid)}
                return res
            valid = bytes(valid)
            other = bytes(enc.encode(a1))
            a_b = arr_for(co_b, scn["salt"] + 2)
            valid_b = bytes(enc.encode(a_b))
        evals = 0
        sigs = set()

        def store(fs, payload0, at=co0):
            """Place a payload where the reader will look for a chunk."""
            with mounted(fs):
                if sharded:
                    fs.put(DS + "/info", dsutil.info_bytes(info))
                    a = ShardedFileAccessor(DS, strategy="in memory")
                    a.store_chunk(payload0, "k", at)
                    a.store_chunk(other, "k", co1)
                    a.close()
                else:
                    path = DS + "/k/{}-{}_{}-{}_{}-{}".format(*at)
                    if gz:
                        fs.put(path + ".gz", gzipmod.compress(payload0, 1,
                                                              mtime=0))
                    else:
                        fs.put(path, payload0)

        def read(fs, at=co0, limit=WATCHDOG_CPU_S):
            with mounted(fs):
                a = get_accessor_for_url(DS, {})
                p = precomputed_io.get_IO_for_existing_dataset(a)
                # CPU-time watchdog (ITIMER_PROF): wall-clock time would
                # make the oracle depend on machine load
                signal.setitimer(signal.ITIMER_PROF, limit)
                try:
                    return sut(p.read_chunk, "k", at)
                finally:
                    signal.setitimer(signal.ITIMER_PROF, 0)

        # control: valid data is never rejected
        fs = base.clone(log) if not sharded else SimFS(log=log)
        fs.dirs[DS] = True
        if not sharded:
            fs.put(DS + "/info", dsutil.info_bytes(info))
        store(fs, valid)
        st, got = read(fs)
        if st == "exc":
            res.violate("C10/valid-rejected",
                        f"uncorrupted {scn['enc']} chunk {a0.shape} "
                        f"{scn['dtype']} was rejected: {got!r}",
                        key=f"C10/valid-rejected/{scn['enc']}/{excname(got)}")
        elif scn["enc"] != "jpeg" and not (
                got.shape == a0.shape and np.array_equal(got, a0)):
            res.violate("C10/valid-rejected", "uncorrupted control read "
                        "differs from the written array")
        else:
            res.probe("control_ok")
        steps = fs.total_calls
        if scn["enc"] == "compressed_segmentation" and not res.violations:
            alt = self._relayout_cseg(valid, scn, a0)
            if alt is not None:
                fs = SimFS(log=log)
                fs.dirs[DS] = True
                fs.put(DS + "/info", dsutil.info_bytes(info))
                store(fs, alt)
                st, got = read(fs)
                res.probe("valid_foreign_layout")
                if st == "exc" or not (got.shape == a0.shape
                                       and np.array_equal(got, a0)):
                    res.violate(
                        "C10/valid-rejected",
                        "a valid compressed_segmentation chunk in which a "
                        "uniform block shares the first table entry of a "
                        "later block (legal per the format, not what the "
                        "package's own encoder emits) "
                        + (f"was rejected: {got!r:.100}" if st == "exc"
                           else "decoded to other values"),
                        key="C10/valid-rejected/shared-table-prefix")

        for ci, c in enumerate(trace["corruptions"]):
            if res.violations:
                break
            at, want_shape = co0, a0.shape
            if c["kind"] == "whole_other":
                # a complete, valid chunk of ANOTHER shape stored at this
                # position (misdirected whole-file write): the full chunk's
                # payload at the 1-voxel border position or vice versa
                if c["a"] % 2:
                    label, bad, at, want_shape = ("whole_other", valid, co_b,
                                                  a_b.shape)
                else:
                    label, bad = "whole_other", valid_b
                if a_b.shape == a0.shape:
                    continue
            elif c["kind"] == "foreign_image":
                label, bad = "foreign_image", self._foreign_image(scn, a0, c)
            else:
                label, bad = self._corrupt(scn, valid, other, c)
            if (bad == valid and at == co0) or (sharded and len(bad) == 0):
                continue
            log.add("CORRUPT", ci, label, core.h8(bad))
            fs = SimFS(log=log)
            fs.dirs[DS] = True
            fs.put(DS + "/info", dsutil.info_bytes(info))
            store(fs, bad, at)
            try:
                st, got = read(fs, at)
            except Hang:
                # confirm with a six times larger budget before calling it a
                # hang: a genuine endless loop exceeds that as well
                try:
                    st, got = read(fs, at, limit=6 * WATCHDOG_CPU_S)
                    res.probe("watchdog_fired_but_decode_finished")
                except Hang:
                    st, got = "hang", None
            steps += fs.total_calls
            evals += 1
            res.probe("kind_" + label)
            res.fault("corrupt_" + label)
            where = (f"corruption #{ci} {label} of a {scn['enc']} "
                     f"{scn['dtype']} c{scn['nchan']} chunk {a0.shape} block "
                     f"{scn['block']} ({len(valid)} B valid, {len(bad)} B "
                     f"corrupted, storage {scn['storage']})")
            narrow = {"corruptions": [c]}
            if st == "hang":
                outcome = "hang"
                res.violate("C10/hang", f"{where}: decode consumed more than {WATCHDOG_CPU_S:.0f} s CPU",
                            key=f"C10/hang/{scn['enc']}", narrow=narrow)
            elif st == "ok":
                outcome = "array"
                if not isinstance(got, np.ndarray) or (
                        got.shape != want_shape):
                    res.violate("C10/wrong-shape",
                                f"{where}: returned shape "
                                f"{getattr(got, 'shape', None)} instead of "
                                f"{want_shape}",
                                key=f"C10/wrong-shape/{scn['enc']}",
                                narrow=narrow)
                elif got.dtype != want_dtype:
                    res.violate("C10/wrong-dtype",
                                f"{where}: returned dtype {got.dtype}",
                                key=f"C10/wrong-dtype/{scn['enc']}",
                                narrow=narrow)
            else:
                outcome = excname(got)
                if not isinstance(got, InvalidFormatError):
                    res.violate("C10/other-exception",
                                f"{where}: raised {excname(got)}: "
                                f"{got!s:.100} instead of InvalidFormatError",
                                key=f"C10/other-exception/{scn['enc']}/"
                                f"{excname(got)}", narrow=narrow)
            res.probe("outcome_" + outcome)
            sigs.add("|".join([scn["enc"][:3], scn["dtype"], scn["storage"],
                               label, outcome]))
        res.digest = log.digest()
        res.steps = steps
        res.evals = max(1, evals)
        res.sigs = sorted(sigs)
        res.nontrivial = evals > 0
        res.info = {"corrupted_reads": evals, "valid_len": len(valid)}
        return res

    def shrink(self, trace):
        scn, cors = trace["scenario"], trace["corruptions"]
        if len(cors) > 1:
            for cand in core.ddmin_candidates(cors):
                if cand:
                    yield {"scenario": scn, "corruptions": cand}
        for k, simple in (("storage", "plain"), ("nchan", 1), ("labels", 2)):
            if scn[k] != simple and not (k == "nchan"
                                         and scn["enc"] == "jpeg"):
                yield {"scenario": dict(scn, **{k: simple}),
                       "corruptions": cors}
        for d in range(3):
            if scn["shape"][d] > 1:
                sh = list(scn["shape"])
                sh[d] -= 1
                yield {"scenario": dict(scn, shape=sh), "corruptions": cors}


if __name__ == "__main__":
    sys.exit(core.main(C10(), os.path.abspath(__file__)))
